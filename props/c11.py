"""C11 — linear elastic laws are SPD, mutually inverse, notation- and frame-consistent.

E1 (complete product): law class x dimension mode x parameter set x material axes x input notation,
every configuration compared with a reference model written on the full 3x3x3x3 tensor
(engineering-constant compliance -> inverse -> tensor -> rotation by Q -> Kelvin-Mandel -> 2D reduction).
The change-of-basis helpers `Get_Pmat` / `Apply_Pmat` are enumerated on their own
(dimension x axes x input shape x notation), with an independently built rotation matrix.
E2: every history  r0 . set1 . r1 . [set2 . r2]  (r_i in {no read, read C, read S}) of parameter assignments
on a live law; after the history the law must read as a freshly constructed law with the final parameters.
"""
from __future__ import annotations

import itertools

import numpy as np

from mc.util import fp, relerr, rng, viol
from mc.util import seed as _seed

PROPERTY = "C11"

LAWS = ["Isotropic", "TransverselyIsotropic", "Orthotropic", "Anisotropic"]
R2 = float(np.sqrt(2.0))
IDX2D = [0, 1, 5]  # in-plane entries xx, yy, xy of the 3D Kelvin-Mandel ordering
EPS = float(np.finfo(float).eps)
COND_MAX = 1e6  # conditioning assumption (DESIGN §2.7)

# ------------------------------------------------------------------------------------------------
# independent tensor algebra: Kelvin-Mandel / Voigt <-> full tensor, rotation on the full tensor
# documented ordering: [11, 22, 33, 23, 13, 12] (2D: [11, 22, 12]); Kelvin-Mandel weights sqrt(2) on shear entries
# ------------------------------------------------------------------------------------------------
PAIRS = {3: [(0, 0), (1, 1), (2, 2), (1, 2), (0, 2), (0, 1)], 2: [(0, 0), (1, 1), (0, 1)]}


def _weights(d):
    return [1.0 if i == j else R2 for (i, j) in PAIRS[d]]


def km_to_tensor(M, d=3):
    M = np.asarray(M, dtype=float)
    T = np.zeros((d, d, d, d))
    w = _weights(d)
    for a, (i, j) in enumerate(PAIRS[d]):
        for b, (k, l) in enumerate(PAIRS[d]):
            val = M[a, b] / (w[a] * w[b])
            T[i, j, k, l] = T[j, i, k, l] = T[i, j, l, k] = T[j, i, l, k] = val
    return T


def tensor_to_km(T, d=3):
    n = len(PAIRS[d])
    M = np.zeros((n, n))
    w = _weights(d)
    for a, (i, j) in enumerate(PAIRS[d]):
        for b, (k, l) in enumerate(PAIRS[d]):
            M[a, b] = w[a] * w[b] * T[i, j, k, l]
    return M


def tensor_to_voigt_stiffness(T, d=3):
    """Voigt stiffness: sigma_I = C_IJ eps_J with engineering shear strains -> C_IJ = C_ijkl."""
    n = len(PAIRS[d])
    M = np.zeros((n, n))
    for a, (i, j) in enumerate(PAIRS[d]):
        for b, (k, l) in enumerate(PAIRS[d]):
            M[a, b] = T[i, j, k, l]
    return M


def rotate_tensor(T, Q):
    """C'_ijkl = Q_ia Q_jb Q_kc Q_ld C_abcd  (Q: columns = material axes in global coordinates)."""
    return np.einsum("ia,jb,kc,ld,abcd->ijkl", Q, Q, Q, Q, T)


def km_vector(A, d=3):
    w = _weights(d)
    return np.array([w[a] * A[i, j] for a, (i, j) in enumerate(PAIRS[d])])


def ref_pmat(Q):
    """Matrix of  eps -> Q eps Q^T  on symmetric tensors, in the Kelvin-Mandel basis (orthogonal iff Q is)."""
    d = Q.shape[0]
    n = len(PAIRS[d])
    P = np.zeros((n, n))
    for b, (k, l) in enumerate(PAIRS[d]):
        E = np.zeros((d, d))
        if k == l:
            E[k, k] = 1.0
        else:
            E[k, l] = E[l, k] = 1.0 / R2
        P[:, b] = km_vector(Q @ E @ Q.T, d)
    return P


def q_from_axes(a1, a2):
    """Rotation whose columns are the NORMALISED material axes (documented: axes of any length)."""
    a1 = np.asarray(a1, dtype=float)
    a2 = np.asarray(a2, dtype=float)
    a1 = a1 / np.sqrt(np.sum(a1 * a1))
    a2 = a2 / np.sqrt(np.sum(a2 * a2))
    if a1.size == 2:
        return np.array([[a1[0], a2[0]], [a1[1], a2[1]]])
    a3 = np.array([a1[1] * a2[2] - a1[2] * a2[1], a1[2] * a2[0] - a1[0] * a2[2], a1[0] * a2[1] - a1[1] * a2[0]])
    return np.stack([a1, a2, a3], axis=1)


# ------------------------------------------------------------------------------------------------
# alphabets
# ------------------------------------------------------------------------------------------------
# "tiny": axes rotated by 1e-3 rad about z (a small fibre misalignment: almost, but not, the global axes)
# "aboutx": the frame turned about its own first axis, which stays e_x
AXES_3D = ["canonical", "inplane", "generic", "x2", "x0.5", "mixed", "swapped", "zup", "tiny", "aboutx", "x1e6", "x1e6b"]
AXES_3D_THOROUGH = ["generic_b", "generic_c", "rot90z", "rot180z", "yz"]
AXES_INPLANE = ["canonical", "inplane", "x2", "x0.5", "mixed", "swapped", "tiny", "x1e6", "x1e6b"]
AXES_INPLANE_THOROUGH = ["inplane_b", "rot90z", "rot180z"]
# x1e6 / x1e6b: long axes (a direction given as a difference of coordinates in micrometres); the second letter reverses the second axis, so that
# the round-off of the dot product of the perpendicular pair is positive for one of the two
NONUNIT = {"x2": (2.0, 2.0), "x0.5": (0.5, 0.5), "mixed": (2.0, 0.5), "x1e6": (1e6, 3e5), "x1e6b": (1e6, -3e5)}

# "elem_intPa": the moduli as per-element INTEGER arrays in Pa (1e6 x the MPa values), Poisson ratios as floats
# "hom_inc": a nearly incompressible material (Poisson ratios 2e-5 below their incompressible values, cond(C) ~ 1e5: rubber, soft tissue)
PSETS = ["hom_a", "hom_b", "elem", "gauss", "elem_intPa", "hom_inc"]
INC = 1.0 - 2e-5
PSETS_THOROUGH = ["hom_c", "collide6", "collide3"]
PSET_SHAPE = {"hom_a": (), "hom_b": (), "hom_c": (), "hom_inc": (), "elem": (3,), "gauss": (3, 2), "collide6": (6, 6), "collide3": (3, 3), "elem_intPa": (3,)}

DIMMODES = ["2PS", "2PE", "3D"]

ENG = {
    "Isotropic": {
        "hom_a": dict(E=210000, v=0.3),  # int modulus on purpose (the suite's value)
        "hom_b": dict(E=3.7, v=-0.4),
        "hom_c": dict(E=1.0, v=0.49),
        "hom_inc": dict(E=1.5, v=0.5 * INC),
        "partial": ["E"],
    },
    "TransverselyIsotropic": {
        "hom_a": dict(El=11580, Et=500, Gl=450, vl=0.02, vt=0.44),
        "hom_b": dict(El=40.0, Et=130.0, Gl=25.0, vl=0.11, vt=-0.2),
        "hom_c": dict(El=1.0, Et=1.0, Gl=0.4, vl=0.25, vt=0.25),
        "hom_inc": dict(El=2.0, Et=3.0, Gl=0.8, vl=0.5 * INC, vt=0.25 * INC),  # incompressible: vl = 1/2, vt = 1 - Et / (2 El)
        "partial": ["El", "Gl"],
    },
    "Orthotropic": {
        "hom_a": dict(E1=11580, E2=500, E3=700, G23=200, G13=450, G12=400, v23=0.3, v13=0.02, v12=0.03),
        "hom_b": dict(E1=10.0, E2=20.0, E3=15.0, G23=4.0, G13=6.0, G12=5.0, v23=0.35, v13=-0.1, v12=0.25),
        "hom_c": dict(E1=2.0, E2=2.0, E3=2.0, G23=0.8, G13=0.8, G12=0.8, v23=0.25, v13=0.25, v12=0.25),
        "hom_inc": dict(E1=2.0, E2=3.0, E3=3.0, G23=1.0, G13=0.8, G12=0.7, v23=0.25 * INC, v13=0.5 * INC, v12=0.5 * INC),
        "partial": ["E1", "G12", "v23"],
    },
}
# the suite's anisotropic matrices (Voigt, integer dtype)
SUITE_V3 = [[60, 20, 10, 0, 0, 0], [20, 120, 80, 0, 0, 0], [10, 80, 300, 0, 0, 0],
            [0, 0, 0, 400, 0, 0], [0, 0, 0, 0, 500, 0], [0, 0, 0, 0, 0, 600]]
SUITE_V2 = [[60, 20, 0], [20, 120, 0], [0, 0, 30]]


def _is_poisson(name):
    return name.startswith("v")


def _field(base, shape, name, k):
    """Deterministic non-constant admissible field around `base` (moduli grow up to +50 %, Poisson ratios shrink up to -30 %)."""
    n = int(np.prod(shape))
    t = ((np.arange(n) * 1.0 + k) % n) / n
    rel = -0.3 if _is_poisson(name) else 0.5
    return (float(base) * (1.0 + rel * t)).reshape(shape)


def pset_shape(pset):
    return (3,) if pset.startswith("only:") else PSET_SHAPE[pset]


def law_psets(law, tier):
    """Parameter sets of a law: 2 homogeneous, per-element (a subset of the constants), per-Gauss-point (all constants),
    and 'only:<name>': exactly one constant is a per-element field (complete over the constants of the law)."""
    out = PSETS + (PSETS_THOROUGH if tier == "thorough" else [])
    if law == "Anisotropic":
        out = [p for p in out if p != "hom_inc"]  # engineering constants only (a matrix has no Poisson ratio to push to its bound)
    if law != "Anisotropic":
        out = out + [f"only:{n}" for n in ENG[law]["hom_a"]]
    return out


def eng_params(law, pset):
    """Engineering constants of a parameter set: dict name -> scalar | ndarray of pset_shape(pset)."""
    shape = pset_shape(pset)
    if shape == ():
        return dict(ENG[law][pset])
    base = ENG[law]["hom_a"]
    which = ENG[law]["partial"] if pset == "elem" else ([pset[5:]] if pset.startswith("only:") else list(base))
    out = {}
    for k, (name, val) in enumerate(base.items()):
        out[name] = _field(val, shape, name, k) if name in which else float(val)
        if pset == "elem_intPa" and not _is_poisson(name):
            out[name] = np.round(_field(val, shape, name, k) * 1e6).astype(np.int64)
    return out


def generic_rotation(tag):
    """Seeded generic proper rotation with no entry close to 0 or 1 (alphabet letter 'generic')."""
    r = rng("c11", "rot", tag)
    for _ in range(100):
        Q, _R = np.linalg.qr(r.normal(size=(3, 3)))
        if np.linalg.det(Q) < 0:
            Q[:, 2] = -Q[:, 2]
        if np.min(np.abs(Q)) > 0.08 and np.max(np.abs(Q)) < 0.95:
            return Q
    return Q


def generic_angle(tag):
    return float(rng("c11", "angle", tag).uniform(0.25, 1.3))


def axes_vectors(name, tag="0"):
    """(axis_1, axis_2) as 3-vectors for an axes letter."""
    ex, ey, ez = np.eye(3)
    if name == "canonical":
        return ex.copy(), ey.copy()
    if name == "swapped":
        return ey.copy(), ex.copy()
    if name == "zup":
        return ez.copy(), ex.copy()
    if name == "yz":
        return ey.copy(), ez.copy()
    if name == "rot90z":
        return ey.copy(), -ex
    if name == "rot180z":
        return -ex, -ey
    if name == "aboutx":
        return ex.copy(), np.array([0.0, np.cos(0.7), np.sin(0.7)])
    if name == "tiny":
        th = 1e-3
        return np.array([np.cos(th), np.sin(th), 0.0]), np.array([-np.sin(th), np.cos(th), 0.0])
    if name.startswith("inplane"):
        th = generic_angle(name + tag)
        return np.array([np.cos(th), np.sin(th), 0.0]), np.array([-np.sin(th), np.cos(th), 0.0])
    if name.startswith("generic"):
        Q = generic_rotation(name + tag)
        return Q[:, 0].copy(), Q[:, 1].copy()
    raise ValueError(name)


def law_axes(name, inplane_only):
    """Axes letter -> vectors; the non-unit letters scale the generic representative."""
    if name in NONUNIT:
        a1, a2 = axes_vectors("inplane" if inplane_only else "generic")
        s1, s2 = NONUNIT[name]
        return s1 * a1, s2 * a2
    return axes_vectors(name)


def generic_spd(n, shape, tag):
    """Seeded generic dense SPD matrices (Kelvin-Mandel), condition number of order 10-50."""
    r = rng("c11", "spd", n, tag)
    out = np.zeros(tuple(shape) + (n, n))
    for idx in np.ndindex(*shape):
        G = r.normal(size=(n, n))
        out[idx] = 100.0 * (G @ G.T / n + 0.4 * np.eye(n))
    return out


def aniso_material(size, pset):
    """Kelvin-Mandel stiffness (material frame) of an anisotropic parameter set, shape PSET_SHAPE + (n, n), and int flag."""
    n = 6 if size == "6x6" else 3
    d = 3 if n == 6 else 2
    if pset == "hom_b":
        V = np.array(SUITE_V3 if n == 6 else SUITE_V2)
        return tensor_to_km(_voigt_to_tensor(V, d), d), True
    return generic_spd(n, pset_shape(pset), pset), False


def _voigt_to_tensor(V, d=3):
    T = np.zeros((d, d, d, d))
    for a, (i, j) in enumerate(PAIRS[d]):
        for b, (k, l) in enumerate(PAIRS[d]):
            T[i, j, k, l] = T[j, i, k, l] = T[i, j, l, k] = T[j, i, l, k] = float(V[a, b])
    return T


def aniso_input(Ckm, size, notation, as_int=False):
    """What the user passes to Anisotropic for the material Ckm in the given notation."""
    d = 3 if size == "6x6" else 2
    if notation == "mandel":
        out = np.array(Ckm, dtype=float)
        if as_int and np.allclose(out, np.rint(out), rtol=0, atol=1e-9):
            out = np.rint(out).astype(int)  # whole-number moduli typed without a decimal point (as the library's own tests write them)
        return out
    out = np.zeros_like(Ckm)
    for idx in np.ndindex(*Ckm.shape[:-2]):
        out[idx] = tensor_to_voigt_stiffness(km_to_tensor(Ckm[idx], d), d)
    if as_int:
        out = np.rint(out).astype(int)
    return out


# ------------------------------------------------------------------------------------------------
# reference model
# ------------------------------------------------------------------------------------------------
def ref_compliance(law, p):
    """Kelvin-Mandel compliance in material axes from the documented engineering constants (scalars)."""
    if law == "Isotropic":
        E1 = E2 = E3 = p["E"]
        v12 = v13 = v23 = p["v"]
        G23 = G13 = G12 = p["E"] / (2.0 * (1.0 + p["v"]))
    elif law == "TransverselyIsotropic":  # axis 1 = longitudinal, (2,3) = isotropy plane
        E1, E2, E3 = p["El"], p["Et"], p["Et"]
        v12 = v13 = p["vl"]
        v23 = p["vt"]
        G23 = p["Et"] / (2.0 * (1.0 + p["vt"]))
        G13 = G12 = p["Gl"]
    elif law == "Orthotropic":
        E1, E2, E3 = p["E1"], p["E2"], p["E3"]
        v12, v13, v23 = p["v12"], p["v13"], p["v23"]
        G23, G13, G12 = p["G23"], p["G13"], p["G12"]
    else:
        raise ValueError(law)
    S = np.zeros((6, 6))
    S[0, 0], S[1, 1], S[2, 2] = 1.0 / E1, 1.0 / E2, 1.0 / E3
    S[0, 1] = S[1, 0] = -v12 / E1  # strain along 2 when stressed along 1
    S[0, 2] = S[2, 0] = -v13 / E1
    S[1, 2] = S[2, 1] = -v23 / E2
    # eps_ij = sigma_ij / (2 G_ij)  ->  Kelvin-Mandel shear entries 1/(2G)
    S[3, 3], S[4, 4], S[5, 5] = 1.0 / (2.0 * G23), 1.0 / (2.0 * G13), 1.0 / (2.0 * G12)
    return S


def _scalar_params(params, idx):
    return {k: (float(v[idx]) if isinstance(v, np.ndarray) else float(v)) for k, v in params.items()}


def ref_material_km(law, params, shape):
    """(shape + (6,6)) Kelvin-Mandel stiffness in material axes; None if not SPD (inadmissible set)."""
    out = np.zeros(tuple(shape) + (6, 6))
    for idx in np.ndindex(*shape):
        S = ref_compliance(law, _scalar_params(params, idx))
        lam = np.linalg.eigvalsh(S)
        if lam.min() <= 0:
            return None
        out[idx] = np.linalg.inv(S)
    return out


def ref_global(Cmat_km, Q):
    """Rotate material-frame stiffness (shape + (n,n)) to the global frame on the full tensor."""
    n = Cmat_km.shape[-1]
    d = 3 if n == 6 else 2
    out = np.zeros_like(Cmat_km)
    for idx in np.ndindex(*Cmat_km.shape[:-2]):
        out[idx] = tensor_to_km(rotate_tensor(km_to_tensor(Cmat_km[idx], d), Q), d)
    return out


def reduce_2d(C3, mode):
    """Plane stress: inverse of the in-plane block of the compliance; plane strain: in-plane block of the stiffness."""
    ix = np.ix_(IDX2D, IDX2D)
    out = np.zeros(C3.shape[:-2] + (3, 3))
    for idx in np.ndindex(*C3.shape[:-2]):
        if mode == "2PS":
            out[idx] = np.linalg.inv(np.linalg.inv(C3[idx])[ix])
        elif mode == "2PE":
            out[idx] = C3[idx][ix]
        else:
            raise ValueError(mode)
    return out


def _cond(C):
    lam = np.linalg.eigvalsh((C + np.swapaxes(C, -1, -2)) / 2)
    lo = np.min(lam)
    return float(np.max(lam) / lo) if lo > 0 else float("inf")


def _tol(cond):
    return max(1e-12, 200.0 * EPS * cond)


# ------------------------------------------------------------------------------------------------
# building laws of the implementation
# ------------------------------------------------------------------------------------------------
def _copyval(v):
    return v.copy() if isinstance(v, np.ndarray) else v


def build_law(law, mode, params, a1, a2, notation=None, Cin=None):
    from EasyFEA.Models.Elastic import _laws as L

    dim = 3 if mode == "3D" else 2
    ps = mode == "2PS"
    if law == "Isotropic":
        return L.Isotropic(dim, E=_copyval(params["E"]), v=_copyval(params["v"]), planeStress=ps)
    if law == "TransverselyIsotropic":
        return L.TransverselyIsotropic(dim, **{k: _copyval(v) for k, v in params.items()},
                                       axis_l=a1.copy(), axis_t=a2.copy(), planeStress=ps)
    if law == "Orthotropic":
        return L.Orthotropic(dim, **{k: _copyval(v) for k, v in params.items()},
                             axis_1=a1.copy(), axis_2=a2.copy(), planeStress=ps)
    if law == "Anisotropic":
        return L.Anisotropic(dim, Cin.copy(), notation == "voigt", axis1=a1.copy(), axis2=a2.copy())
    raise ValueError(law)


# ------------------------------------------------------------------------------------------------
# enumeration
# ------------------------------------------------------------------------------------------------
def _law_cases(tier):
    ax3 = AXES_3D + (AXES_3D_THOROUGH if tier == "thorough" else [])
    axp = AXES_INPLANE + (AXES_INPLANE_THOROUGH if tier == "thorough" else [])
    out = []
    for law in LAWS:
        if law == "Anisotropic":
            for mode, size in (("2PE", "3x3"), ("2PE", "6x6"), ("3D", "6x6")):
                for pset in law_psets(law, tier):
                    for ax in (axp if size == "3x3" else ax3):
                        for notation in ("voigt", "mandel"):
                            out.append({"kind": "law", "law": law, "dim": mode, "size": size, "pset": pset,
                                        "axes": ax, "notation": notation})
        else:
            for mode in DIMMODES:
                for pset in law_psets(law, tier):
                    for ax in (["canonical"] if law == "Isotropic" else ax3):
                        out.append({"kind": "law", "law": law, "dim": mode, "pset": pset, "axes": ax})
    return out


PMAT_SHAPES = {"i": (), "e": (4,), "ep": (3, 2)}
PMAT_SHAPES_THOROUGH = {"e1": (1,), "ep_dd": None, "ep_66": (6, 6)}  # ep_dd: Ne = nPg = dim
PMAT_AXES = {3: ["canonical", "inplane", "generic", "x2", "x0.5", "mixed", "swapped", "zup", "tiny", "aboutx", "x1e6", "x1e6b"],
             2: ["canonical", "inplane", "x2", "x0.5", "mixed", "swapped", "tiny", "x1e6", "x1e6b"]}


def _pmat_cases(tier):
    shapes = list(PMAT_SHAPES) + (list(PMAT_SHAPES_THOROUGH) if tier == "thorough" else [])
    out = []
    for dim in (2, 3):
        for ax in PMAT_AXES[dim] + (["rot90z", "rot180z"] if tier == "thorough" else []):
            for sh in shapes:
                for mandel in (True, False):
                    out.append({"kind": "pmat", "dim": dim, "axes": ax, "shape": sh, "mandel": mandel})
        for psh in shapes:
            for msh in shapes:
                out.append({"kind": "apply", "dim": dim, "pshape": psh, "mshape": msh})
    return out


# ---- E2 alphabets -------------------------------------------------------------------------------
def e2_setops(law, tier, size=None):
    """Assignment letters of a law, 'name=value-label' (Anisotropic: 'Set_C=material/notation')."""
    ops = []
    if law == "Anisotropic":
        mats = ["B", "Bhet"] + (["A", "Bgauss"] if tier == "thorough" else ["A"])
        for m in mats:
            for notation in ("voigt", "mandel"):
                ops.append(f"Set_C={m}/{notation}")
        return ops
    names = list(ENG[law]["hom_a"])
    for n in names:
        ops.append(f"{n}=alt")
    het = names if law != "Orthotropic" else ["E1", "G23", "v12"]
    for n in het:
        ops.append(f"{n}=arr_e")
    if tier == "thorough":
        for n in ENG[law]["partial"]:
            ops.append(f"{n}=arr_ep")
    ops += ["planeStress=True", "planeStress=False", "dim=2", "dim=3"]
    return ops


def _e2_value(law, name, what):
    base = ENG[law]["hom_a"][name]
    k = list(ENG[law]["hom_a"]).index(name)
    if what == "alt":
        return float(base) * (0.7 if _is_poisson(name) else 1.25)
    if what == "arr_e":
        return _field(base, (3,), name, k + 1)
    if what == "arr_ep":
        return _field(base, (3, 2), name, k + 2)
    raise ValueError(what)


def _e2_reads(tier):
    """read slots before / between the assignments"""
    # "W": Walpole_Decomposition() (laws that have one) - a third consumer of the constants besides C and S
    return ["-", "C", "S", "W"] if tier == "quick" else ["-", "C", "S", "W", "CS", "SC", "WC"]


E2_LAST_READS = ["-", "C", "S"]  # slot after the last assignment (the final reads C, S, C follow it anyway)


def _e2_cases(tier):
    out = []
    axes = ["generic"]  # the update logic under test does not look at the axes; canonical / other axes are the E1 part
    for law in LAWS:
        starts = [("2PE", "3x3"), ("2PE", "6x6"), ("3D", "6x6")] if law == "Anisotropic" else [(m, None) for m in DIMMODES]
        for mode, size in starts:
            for ax in (["canonical"] if law == "Isotropic" else axes):
                ops = e2_setops(law, tier, size)
                for first in ["none"] + ops:
                    c = {"kind": "e2", "law": law, "dim": mode, "axes": ax, "first": first, "tier": tier}
                    if size:
                        c["size"] = size
                    out.append(c)
    return out


def _inplace_cases(tier):
    """a per-element parameter field owned by the caller is edited IN PLACE and assigned again as the same object
    (read before, so that C and S are cached): every field-capable constant of every law x dimension mode"""
    out = []
    for law in ("Isotropic", "TransverselyIsotropic", "Orthotropic"):
        for mode in DIMMODES:
            for name in ENG[law]["hom_a"]:
                out.append({"kind": "inplace", "law": law, "dim": mode, "param": name})
    return out


def _lawpair_cases(tier):
    """two laws built one after the other in ONE process: every ordered pair of material frames (the letters contain frames that share
    their first axis, frames that differ by a scaling of the axes only, ...). The second law is judged: nothing of the first may survive."""
    out = []
    laws = ["TransverselyIsotropic", "Orthotropic"]
    modes = ["3D"] if tier == "quick" else list(DIMMODES)
    for l1 in laws:
        for l2 in laws:
            if tier == "quick" and l1 != l2 and l2 != "Orthotropic":
                continue
            for mode in modes:
                for a in AXES_3D:
                    for b in AXES_3D:
                        if a != b:
                            out.append({"kind": "lawpair", "first": {"kind": "law", "law": l1, "dim": mode, "pset": "hom_a", "axes": a},
                                        "second": {"kind": "law", "law": l2, "dim": mode, "pset": "hom_b", "axes": b}})
    return out


def _run_lawpair(case):
    r1 = _run_law(case["first"])
    r2 = _run_law(case["second"])
    v = []
    for x in r2.get("violations", []):
        k = dict(x["key"], kind="lawpair", first_law=case["first"]["law"], first_axes=case["first"]["axes"])
        v.append(viol(x["check"], f"[second law of a process; first: {case['first']['law']} with axes '{case['first']['axes']}'] " + x["detail"],
                      **{kk: vv for kk, vv in k.items() if kk != "check"}))
    return {"violations": v, "fingerprint": fp(r1.get("fingerprint"), r2.get("fingerprint")), "nontrivial": bool(r2.get("nontrivial", True)),
            "transitions": int(r1.get("transitions", 1)) + int(r2.get("transitions", 1)), "skipped": r2.get("skipped")}


def cases(tier, seed):
    return _law_cases(tier) + _pmat_cases(tier) + _e2_cases(tier) + _inplace_cases(tier) + _lawpair_cases(tier)


def _run_inplace(case):
    law, mode, name = case["law"], case["dim"], case["param"]
    params = dict(ENG[law]["hom_b"])
    a1, a2 = np.array([1.0, 0.0, 0.0]), np.array([0.0, 1.0, 0.0])
    mat = build_law(law, mode, params, a1, a2)
    arr = _field(params[name], (3,), name, 1)
    v = []
    key = dict(law=law, dim=mode, param=name)
    fps = []
    for step in range(3):
        if step > 0:
            arr *= (0.9 if _is_poisson(name) else 1.2)  # in place: same object
        setattr(mat, name, arr)  # the SAME array object every time
        C, S = np.array(mat.C, dtype=float), np.array(mat.S, dtype=float)
        fresh = build_law(law, mode, dict(params, **{name: arr.copy()}), a1, a2)
        Cf, Sf = np.array(fresh.C, dtype=float), np.array(fresh.S, dtype=float)
        fps.append(fp(C))
        for nm, A, B in (("C", C, Cf), ("S", S, Sf)):
            if A.shape != B.shape or np.abs(A - B).max() > 1e-12 * max(np.abs(B).max(), 1e-300):
                v.append(viol("inplace_stale", f"{law} {mode}: after editing the field of {name} in place and assigning it again (step {step}), "
                                               f"{nm} differs from a freshly constructed law", which=nm, **key))
        if v:
            break
    return {"violations": v[:2], "fingerprint": fp(law, mode, name, fps), "nontrivial": True, "transitions": 3}


def describe(tier, seed):
    nl, npm, ne = len(_law_cases(tier)), len(_pmat_cases(tier)), len(_e2_cases(tier))
    return {
        "rule": "law case = one (law, dimension mode, parameter set, axes, notation) configuration: C, S, flags and "
                "Walpole_Decomposition of a freshly built law compared with the tensor reference model; pmat/apply case = one "
                "(dim, axes, input shape, notation) call of Get_Pmat / Apply_Pmat compared with an independent rotation matrix; "
                "e2 case = all histories r0.set1.r1.[set2.r2] with a fixed first assignment, final reads compared with a fresh law. "
                "non-trivial = rotated axes, heterogeneous field or 2D reduction (law), non-canonical axes (pmat), >= 1 assignment (e2); "
                "distinct = fingerprint of the observed C and S / P / final reads",
        "exhaustive": True,
        "bound": f"full product: {nl} law configurations, {npm} Get_Pmat/Apply_Pmat configurations, {ne} E2 cases covering every "
                 "history with <= 2 assignments, read slots in " + str(_e2_reads(tier)) + " (last slot " + str(E2_LAST_READS) + "), then reads C, S, C" + "; generic axes / SPD matrices are seeded representatives",
        "alphabet": {"laws": 4, "dim_modes": 3, "parameter_sets": {law: len(law_psets(law, tier)) for law in LAWS},
                     "parameter_set_letters": PSETS + (PSETS_THOROUGH if tier == "thorough" else []) + ["only:<constant>"],
                     "axes_3d": len(AXES_3D) + (len(AXES_3D_THOROUGH) if tier == "thorough" else 0),
                     "axes_inplane": len(AXES_INPLANE) + (len(AXES_INPLANE_THOROUGH) if tier == "thorough" else 0),
                     "notations": 2, "pmat_shapes": len(PMAT_SHAPES) + (len(PMAT_SHAPES_THOROUGH) if tier == "thorough" else 0),
                     "e2_read_slots": len(_e2_reads(tier)),
                     "e2_assignments": {law: len(e2_setops(law, tier)) for law in LAWS}},
        "assumptions": [
            "reference: compliance from the documented engineering constants, inverse by numpy.linalg, rotation on the 3x3x3x3 tensor, own Kelvin-Mandel/Voigt conversion",
            f"tolerance max(1e-12, 200 eps cond(C)) relative to max|C|; parameter sets with cond(C) > {COND_MAX:g} are skipped (none in the alphabet)",
            "hom_inc = nearly incompressible homogeneous set (Poisson ratios 2e-5 below their incompressible values, cond(C) ~ 1e5, inside the conditioning assumption) "
            "of the three laws given by engineering constants",
            "Anisotropic has no plane-stress mode (constructor forces planeStress=False); a 3x3 anisotropic input only takes in-plane axes",
            "all array parameters of a law share one shape (documented requirement); E2 histories leading to mixed shapes are pruned and counted",
            "Anisotropic.Walpole_Decomposition returns nothing by design (outcome 'no_walpole'); Set_C(update_S=False) is a documented opt-out and not explored",
            "E2 oracle is differential (a freshly constructed law with the final parameters); absolute correctness of a fresh law is the E1 part",
        ],
        "explanation": "no configuration of the stated alphabets violates the property; nothing is claimed for moduli, angles or field shapes outside them",
    }


def run_case(case):
    return globals()["_run_" + case["kind"]](case)


# ------------------------------------------------------------------------------------------------
# E1: laws
# ------------------------------------------------------------------------------------------------
def _case_material(case):
    """-> dict(params | Cin, shape, Cmat (material-frame KM, shape+(n,n)), a1, a2, Q)"""
    law, pset = case["law"], case["pset"]
    shape = pset_shape(pset)
    if law == "Anisotropic":
        size = case["size"]
        Cmat, as_int = aniso_material(size, pset)
        a1, a2 = law_axes(case["axes"], inplane_only=(size == "3x3"))
        Q = q_from_axes(a1, a2)
        if size == "3x3":
            Q = Q[:2, :2]
        Cin = aniso_input(Cmat, size, case["notation"], as_int)
        return dict(params=None, Cin=Cin, shape=shape, Cmat=Cmat, a1=a1, a2=a2, Q=Q)
    params = eng_params(law, pset)
    Cmat = ref_material_km(law, params, shape)
    if law == "Isotropic":
        a1, a2 = axes_vectors("canonical")
    else:
        a1, a2 = law_axes(case["axes"], inplane_only=False)
    return dict(params=params, Cin=None, shape=shape, Cmat=Cmat, a1=a1, a2=a2, Q=q_from_axes(a1, a2))


def _expected_law(case, m):
    """Expected global C of the law of the case (shape + (3,3)|(6,6)) and the 3D global stiffness when it exists."""
    Cg = ref_global(m["Cmat"], m["Q"])
    if Cg.shape[-1] == 3:
        return Cg, None
    if case["dim"] == "3D":
        return Cg, Cg
    return reduce_2d(Cg, case["dim"]), Cg


def _sym_err(A):
    return relerr(A, np.swapaxes(A, -1, -2))


def _run_law(case):
    law, mode = case["law"], case["dim"]
    key = {k: case[k] for k in ("law", "dim", "size", "pset", "axes", "notation") if k in case}
    m = _case_material(case)
    v = []
    ntr = 0
    if m["Cmat"] is None:
        return {"violations": [], "skipped": "parameter set not positive definite", "fingerprint": "inadmissible", "nontrivial": False}
    Cexp, C3exp = _expected_law(case, m)
    cond = _cond(Cexp)
    if not cond <= COND_MAX:
        return {"violations": [], "skipped": "cond(C) above the conditioning assumption", "fingerprint": "illcond", "nontrivial": False}
    # the reference (and the harness' own 2D reduction) go through the inverse of the 3D material: their accuracy is eps * cond of THAT
    # matrix, also where the reduced 2D law itself is well conditioned (plane stress of a nearly incompressible material)
    cond3 = cond if C3exp is None else max(cond, _cond(C3exp))
    if not cond3 <= COND_MAX:
        return {"violations": [], "skipped": "cond(C) above the conditioning assumption", "fingerprint": "illcond", "nontrivial": False}
    tol = _tol(cond3)
    Sexp = np.linalg.inv(Cexp)

    try:
        mat = build_law(law, mode, m["params"], m["a1"], m["a2"], case.get("notation"), m["Cin"])
        C = np.asarray(mat.C, dtype=float)
        S = np.asarray(mat.S, dtype=float)
    except Exception as ex:  # an admissible material: the property promises a law
        v.append(viol("law_raises", f"constructing the law / reading C, S raised {type(ex).__name__}: {str(ex)[:300]}",
                      exc=type(ex).__name__, **key))
        return {"violations": v, "fingerprint": "raise:" + type(ex).__name__, "transitions": 1, "outcome": "violation"}
    ntr += 3
    n = 6 if mode == "3D" else 3
    eshape = tuple(m["shape"]) + (n, n)
    if C.shape != eshape or S.shape != eshape:
        v.append(viol("shape", f"C.shape={C.shape} S.shape={S.shape}, expected {eshape}", **key))
        return {"violations": v, "fingerprint": fp("shape", list(C.shape)), "transitions": ntr}
    if not (np.all(np.isfinite(C)) and np.all(np.isfinite(S))):
        v.append(viol("finite", "C or S holds non-finite entries", **key))
        return {"violations": v, "fingerprint": "nonfinite", "transitions": ntr}

    # --- intrinsic: symmetric, positive definite, mutually inverse
    for nm, A in (("C", C), ("S", S)):
        e = _sym_err(A)
        if e > max(1e-12, EPS * cond3):  # C or S is the numerical inverse of the other: symmetric to eps * cond (1e-12 up to cond 4.5e3)
            v.append(viol("symmetry", f"{nm} != {nm}^T (rel {e:.2e})", matrix=nm, **key))
        lam = np.linalg.eigvalsh((A + np.swapaxes(A, -1, -2)) / 2)
        if not np.min(lam) > 0:
            v.append(viol("spd", f"{nm} has eigenvalue {np.min(lam):.3e} <= 0", matrix=nm, **key))
    eye = np.broadcast_to(np.eye(n), eshape)
    for nm, prod in (("CS", C @ S), ("SC", S @ C)):
        e = float(np.max(np.abs(prod - eye)))
        if e > tol:
            v.append(viol("inverse", f"max|{nm} - I| = {e:.2e} (tol {tol:.1e})", product=nm, **key))

    # --- against the reference model (rotation on the full tensor, 2D reduction of the 3D material)
    eC, eS = relerr(C, Cexp), relerr(S, Sexp)
    if eC > tol:
        v.append(viol("C_reference", f"C differs from the reference model: rel {eC:.3e} (tol {tol:.1e}); "
                      f"C[0]={np.array2string(C.reshape(-1, n, n)[0], precision=6)} expected {np.array2string(Cexp.reshape(-1, n, n)[0], precision=6)}", **key))
    if eS > tol:
        v.append(viol("S_reference", f"S differs from the reference model: rel {eS:.3e} (tol {tol:.1e})", **key))

    # --- flags
    het = len(m["shape"]) > 0
    if bool(mat.isHeterogeneous) != het:
        v.append(viol("flags", f"isHeterogeneous={mat.isHeterogeneous} for parameter shape {m['shape']}", **key))
    simp = {"2PS": "Plane Stress", "2PE": "Plane Strain", "3D": "3D"}[mode]
    if mat.simplification != simp:
        v.append(viol("flags", f"simplification={mat.simplification!r} expected {simp!r}", **key))

    # --- the 2D law is the reduction of the implementation's own 3D law of the same material
    if mode != "3D" and C3exp is not None:
        mat3 = build_law(law, "3D", m["params"], m["a1"], m["a2"], case.get("notation"), m["Cin"])
        C3 = np.asarray(mat3.C, dtype=float)
        ntr += 2
        if C3.shape == tuple(m["shape"]) + (6, 6) and np.all(np.isfinite(C3)):
            try:
                red = reduce_2d(C3, mode)
            except np.linalg.LinAlgError:
                red = None
            if red is not None:
                e = relerr(C, red)
                if e > tol:
                    v.append(viol("reduction_2d", f"2D law differs from the {simp} reduction of the same law built in 3D: rel {e:.3e}", **key))

    # --- Voigt and Kelvin-Mandel input describe the same material
    if law == "Anisotropic" and case["notation"] == "voigt":
        Cin_m = aniso_input(m["Cmat"], case["size"], "mandel")
        matm = build_law(law, mode, None, m["a1"], m["a2"], "mandel", Cin_m)
        Cm = np.asarray(matm.C, dtype=float)
        ntr += 2
        e = relerr(C, Cm)
        if e > tol:
            v.append(viol("voigt_vs_mandel", f"the same material given in Voigt and in Kelvin-Mandel notation yields different C: rel {e:.3e}", **key))

    # --- Walpole decomposition: sum_i c_i E_i is the 3D stiffness of the material in the global frame
    outcome = "ok"
    if law != "Anisotropic":
        ntr += 1
        try:
            ci, Ei = mat.Walpole_Decomposition()
            err = None
        except Exception as ex:  # its own self-check (AssertionError) or a crash while packing the coefficients
            err = ex
        if err is not None:
            v.append(viol("walpole_raises", f"Walpole_Decomposition raised {type(err).__name__}: {str(err)[:200]}",
                          exc=type(err).__name__, **key))
        else:
            ci = np.asarray(ci, dtype=float)
            Ei = np.asarray(Ei, dtype=float)
            if ci.shape != (Ei.shape[0],) + tuple(m["shape"]) or Ei.shape[1:] != (6, 6):
                v.append(viol("walpole_shape", f"ci.shape={ci.shape}, Ei.shape={Ei.shape} for parameter shape {m['shape']}", **key))
            else:
                tot = np.zeros(tuple(m["shape"]) + (6, 6))
                for c, E in zip(ci, Ei):
                    tot = tot + c[..., None, None] * E
                e = relerr(tot, C3exp)
                if e > tol:
                    v.append(viol("walpole_sum", f"sum c_i E_i differs from the 3D stiffness of the material: rel {e:.3e}", **key))
    else:
        ci, Ei = mat.Walpole_Decomposition()
        ntr += 1
        outcome = "no_walpole" if len(ci) == 0 else "ok"

    nontrivial = (case["axes"] != "canonical") or het or mode != "3D"
    return {"violations": v, "fingerprint": fp(law, mode, C, S), "nontrivial": bool(nontrivial), "transitions": ntr,
            "outcome": outcome if not v else "violation"}


# ------------------------------------------------------------------------------------------------
# E1: Get_Pmat / Apply_Pmat
# ------------------------------------------------------------------------------------------------
def _pshape(label, dim):
    if label in PMAT_SHAPES:
        return PMAT_SHAPES[label]
    if label == "ep_dd":
        return (dim, dim)
    return PMAT_SHAPES_THOROUGH[label]


def _axes_field(name, dim, shape, salt):
    """Arrays axis_1, axis_2 of shape `shape + (dim,)` and the list of reference rotations (one per entry)."""
    a1 = np.zeros(tuple(shape) + (dim,))
    a2 = np.zeros(tuple(shape) + (dim,))
    Qs = np.zeros(tuple(shape) + (dim, dim))
    r = rng("c11", "pmat-scale", name, dim, salt)
    for k, idx in enumerate(np.ndindex(*shape)):
        tag = f"{salt}/{k}"
        if name in NONUNIT:
            base = "inplane" if dim == 2 else "generic"
            u, w = axes_vectors(base, tag)
            s1, s2 = NONUNIT[name]
            if name == "mixed":  # a different pair of lengths per entry
                s1, s2 = float(r.uniform(1.5, 3.0)), float(r.uniform(0.2, 0.7))
            u, w = s1 * u, s2 * w
        else:
            u, w = axes_vectors(name, tag)
        a1[idx], a2[idx] = u[:dim], w[:dim]
        Qs[idx] = q_from_axes(u[:dim], w[:dim])
    return a1, a2, Qs


def _run_pmat(case):
    from EasyFEA.Models import Get_Pmat

    dim, ax, sh, mandel = case["dim"], case["axes"], case["shape"], case["mandel"]
    key = dict(dim=dim, axes=ax, shape=sh, mandel=mandel)
    shape = _pshape(sh, dim)
    if dim == 2 and ax in ("generic", "zup"):
        return {"violations": [], "fingerprint": "n/a", "nontrivial": False, "outcome": "n/a"}
    a1, a2, Qs = _axes_field(ax, dim, shape, "pm")
    n = 3 if dim == 2 else 6
    Pref = np.zeros(tuple(shape) + (n, n))
    for idx in np.ndindex(*shape):
        Pref[idx] = ref_pmat(Qs[idx])
    a1_in, a2_in = a1.copy(), a2.copy()
    v = []
    eye = np.broadcast_to(np.eye(n), Pref.shape)
    if mandel:
        P = np.asarray(Get_Pmat(a1_in, a2_in), dtype=float)
        if P.shape != Pref.shape:
            v.append(viol("pmat_shape", f"P.shape={P.shape} expected {Pref.shape}", **key))
            return {"violations": v, "fingerprint": fp("shape", list(P.shape))}
        e = float(np.max(np.abs(P @ np.swapaxes(P, -1, -2) - eye)))
        if not e <= 1e-12:
            v.append(viol("pmat_orthogonal", f"max|P P^T - I| = {e:.3e} for axes '{ax}' (lengths need not be 1)", **key))
        e = float(np.max(np.abs(P - Pref)))
        if not e <= 1e-12:
            v.append(viol("pmat_reference", f"max|P - P_ref| = {e:.3e}; P_ref is the matrix of eps -> Q eps Q^T for the normalised axes", **key))
        obs = P
    else:
        Ps, Pe = Get_Pmat(a1_in, a2_in, False)
        Ps, Pe = np.asarray(Ps, dtype=float), np.asarray(Pe, dtype=float)
        if Ps.shape != Pref.shape or Pe.shape != Pref.shape:
            v.append(viol("pmat_shape", f"Ps.shape={Ps.shape} Pe.shape={Pe.shape} expected {Pref.shape}", **key))
            return {"violations": v, "fingerprint": fp("shape", list(Ps.shape))}
        D = np.diag(_weights(dim))
        Di = np.diag([1.0 / w for w in _weights(dim)])
        # sigma_KM = D sigma_V, eps_V = D eps_KM
        Ps_ref, Pe_ref = Di @ Pref @ D, D @ Pref @ Di
        for nm, A, R in (("Ps", Ps, Ps_ref), ("Pe", Pe, Pe_ref)):
            e = float(np.max(np.abs(A - R)))
            if not e <= 1e-12:
                v.append(viol("pmat_reference", f"max|{nm} - {nm}_ref| = {e:.3e} (Voigt stress / strain change of basis)", matrix=nm, **key))
        e = float(np.max(np.abs(Ps @ np.swapaxes(Pe, -1, -2) - eye)))
        if not e <= 1e-12:
            v.append(viol("pmat_orthogonal", f"max|Ps Pe^T - I| = {e:.3e}", **key))
        obs = np.concatenate([Ps, Pe], axis=-1)
    if not (np.array_equal(a1_in, a1) and np.array_equal(a2_in, a2)):
        v.append(viol("pmat_mutates_input", "Get_Pmat modified the axis arrays it was given", **key))
    return {"violations": v, "fingerprint": fp(dim, mandel, obs), "nontrivial": ax != "canonical", "transitions": 1,
            "outcome": "ok" if not v else "violation"}


def _run_apply(case):
    """Apply_Pmat on every (P shape, M shape) pair, with the REFERENCE P (so Get_Pmat defects do not leak in)."""
    from EasyFEA.Models import Apply_Pmat

    dim, psh, msh = case["dim"], case["pshape"], case["mshape"]
    key = dict(dim=dim, pshape=psh, mshape=msh)
    ps, ms = _pshape(psh, dim), _pshape(msh, dim)
    n = 3 if dim == 2 else 6
    # compatible leading shapes: (e,) with (e,p) need the same Ne; (e,p) with (e,p) the same shape
    if len(ps) and len(ms):
        if ps[0] != ms[0] or (len(ps) == 2 and len(ms) == 2 and ps != ms):
            return {"violations": [], "fingerprint": "incompatible", "nontrivial": False, "outcome": "incompatible_shapes"}
    _, _, Qs = _axes_field("inplane" if dim == 2 else "generic", dim, ps, "ap")
    P = np.zeros(tuple(ps) + (n, n))
    for idx in np.ndindex(*ps):
        P[idx] = ref_pmat(Qs[idx])
    r = rng("c11", "apply", dim, psh, msh)
    M = r.normal(size=tuple(ms) + (n, n))
    M = M + np.swapaxes(M, -1, -2)
    full = ps if len(ps) >= len(ms) else ms
    v = []

    def bc(A, sh):
        """broadcast leading axes (), (e,), (e,p) to `full` the documented way: (e,) repeats over p"""
        if len(sh) == 1 and len(full) == 2:
            A = A[:, None]
        return np.broadcast_to(A, tuple(full) + (n, n))

    Pb, Mb = bc(P, ps), bc(M, ms)
    exp_g = np.zeros(tuple(full) + (n, n))
    exp_l = np.zeros(tuple(full) + (n, n))
    for idx in np.ndindex(*full):
        exp_g[idx] = Pb[idx] @ Mb[idx] @ Pb[idx].T
        exp_l[idx] = Pb[idx].T @ Mb[idx] @ Pb[idx]
    G = np.asarray(Apply_Pmat(P.copy(), M.copy(), toGlobal=True), dtype=float)
    Lm = np.asarray(Apply_Pmat(P.copy(), M.copy(), toGlobal=False), dtype=float)
    for nm, A, R in (("toGlobal", G, exp_g), ("toMaterial", Lm, exp_l)):
        if A.shape != R.shape:
            v.append(viol("apply_shape", f"Apply_Pmat {nm}: shape {A.shape} expected {R.shape}", direction=nm, **key))
        elif relerr(A, R) > 1e-12:
            v.append(viol("apply_reference", f"Apply_Pmat {nm} differs from P M P^T / P^T M P: rel {relerr(A, R):.3e}", direction=nm, **key))
    if G.shape == exp_g.shape:
        back = np.asarray(Apply_Pmat(P.copy(), G, toGlobal=False), dtype=float)
        if back.shape != exp_g.shape or relerr(back, Mb) > 1e-12:
            v.append(viol("apply_roundtrip", f"material -> global -> material does not return M: rel {relerr(back, Mb):.3e}", **key))
    # frame consistency: P M P^T is the Kelvin-Mandel matrix of the Q-rotated tensor, computed independently
    Qfull = Qs if len(ps) >= len(ms) else (np.broadcast_to(Qs[:, None] if len(ps) == 1 and len(full) == 2 else Qs, tuple(full) + (dim, dim)))
    if G.shape == exp_g.shape:
        worst = 0.0
        for idx in np.ndindex(*full):
            T = rotate_tensor(km_to_tensor(Mb[idx], dim), Qfull[idx])
            worst = max(worst, relerr(G[idx], tensor_to_km(T, dim)))
        if worst > 1e-12:
            v.append(viol("apply_tensor", f"Apply_Pmat(P, M) is not the Q-rotated fourth-order tensor: rel {worst:.3e}", **key))
    return {"violations": v, "fingerprint": fp(dim, psh, msh, G), "nontrivial": True, "transitions": 3,
            "outcome": "ok" if not v else "violation"}


# ------------------------------------------------------------------------------------------------
# E2: assignments interleaved with reads
# ------------------------------------------------------------------------------------------------
class _State:
    """The documented state of a law: its constructor arguments."""

    def __init__(self, law, mode, size):
        self.law, self.size = law, size
        self.dim = 3 if mode == "3D" else 2
        self.planeStress = mode == "2PS"
        self.params = None if law == "Anisotropic" else {k: float(v) for k, v in ENG[law]["hom_a"].items()}
        self.aniso = ("A", "mandel")

    def mode(self):
        return "3D" if self.dim == 3 else ("2PS" if self.planeStress else "2PE")

    def admissible(self):
        if self.law == "Anisotropic":
            return True
        shapes = {v.shape for v in self.params.values() if isinstance(v, np.ndarray)}
        if len(shapes) > 1:
            return False
        shape = shapes.pop() if shapes else ()
        k = (self.law, tuple((n, np.asarray(v).tobytes()) for n, v in self.params.items()))
        if k not in _ADMISSIBLE:
            _ADMISSIBLE[k] = ref_material_km(self.law, self.params, shape) is not None
        return _ADMISSIBLE[k]


_E2_MATS = {}
_ADMISSIBLE = {}


def _e2_mat(size, label):
    """Anisotropic E2 materials (Kelvin-Mandel, material frame)."""
    k = (size, label, _seed())
    if k not in _E2_MATS:
        n = 6 if size == "6x6" else 3
        sh = {"A": (), "B": (), "Bhet": (3,), "Bgauss": (3, 2)}[label]
        _E2_MATS[k] = generic_spd(n, sh, "e2" + label)
    return _E2_MATS[k]


def _e2_state_apply(st, op):
    """One assignment on the documented state (constructor arguments)."""
    name, what = op.split("=")
    if name == "Set_C":
        st.aniso = tuple(what.split("/"))
    elif name == "planeStress":
        st.planeStress = what == "True"
    elif name == "dim":
        st.dim = int(what)
    else:
        st.params[name] = _e2_value(st.law, name, what)


def _e2_impl_apply(mat, law, size, op):
    """The same assignment on the live law."""
    name, what = op.split("=")
    if name == "Set_C":
        label, notation = what.split("/")
        mat.Set_C(aniso_input(_e2_mat(size, label), size, notation), notation == "voigt")
    elif name == "planeStress":
        mat.planeStress = what == "True"
    elif name == "dim":
        mat.dim = int(what)
    else:
        setattr(mat, name, _copyval(_e2_value(law, name, what)))


def _hetero(st):
    """Names of the constants that are fields in a state, e.g. 'El,Gl' ('' = homogeneous)."""
    if st.params is None:
        return ""
    return ",".join(sorted(k for k, x in st.params.items() if isinstance(x, np.ndarray)))


def _e2_fresh(st, a1, a2):
    if st.law == "Anisotropic":
        label, notation = st.aniso
        Cin = aniso_input(_e2_mat(st.size, label), st.size, notation)
        return build_law(st.law, st.mode(), None, a1, a2, notation, Cin)
    return build_law(st.law, st.mode(), st.params, a1, a2)


def _run_e2(case):
    law, mode, ax, first, tier = case["law"], case["dim"], case["axes"], case["first"], case.get("tier", "quick")
    size = case.get("size")
    base_key = {k: case[k] for k in ("law", "dim", "size", "axes") if k in case}
    inplane = size == "3x3"
    a1, a2 = (axes_vectors("canonical") if law == "Isotropic" else law_axes(ax, inplane))
    reads = [r for r in _e2_reads(tier) if law != "Anisotropic" or "W" not in r]
    ops = e2_setops(law, tier, size)
    if first == "none":
        histories = [(r0,) for r0 in reads]
    else:
        histories = []
        for r0, r1 in itertools.product([r for r in reads if "W" not in r], reads):  # Walpole is read after an assignment (slots 1, 2) only
            histories.append((r0, first, r1))
            for s2 in ops:
                for r2 in E2_LAST_READS + (["W"] if "W" in reads else []):
                    histories.append((r0, first, r1, s2, r2))
    v, obs = [], []
    ntr = nstates = pruned = 0

    def read(mat, which, scribble=True):
        A = mat.C if which == "C" else mat.S
        out = np.array(A, dtype=float)
        if scribble:
            A[...] = 0.0  # the returned array belongs to the caller
        return out

    for h in histories:
        # admissibility of every intermediate state is decided on the documented state, before touching the implementation
        st = _State(law, mode, size)
        ok = True
        for tok in h[1::2]:
            _e2_state_apply(st, tok)
            if not st.admissible():
                ok = False
                break
        if not ok:
            pruned += 1
            continue
        # replay on a fresh object, the documented state `cur` stepping along
        cur = _State(law, mode, size)
        hist_str = ";".join(h)
        try:
            mat = _e2_fresh(cur, a1, a2)
            ntr += 1
            for pos, tok in enumerate(h):
                if pos % 2 == 0:  # read slot
                    for which in (tok if tok != "-" else ""):
                        if which == "W":
                            ci, Ei = mat.Walpole_Decomposition()
                            cf, Ef = _e2_fresh(cur, a1, a2).Walpole_Decomposition()
                            ew = max(relerr(np.asarray(ci, dtype=float), np.asarray(cf, dtype=float)), relerr(np.asarray(Ei, dtype=float), np.asarray(Ef, dtype=float)))
                            if ew > 1e-12:
                                v.append(viol("e2_stale", f"during [{hist_str}] (read slot {pos // 2}) Walpole_Decomposition differs from that of a freshly constructed law "
                                              f"({law}, {st.mode()}): rel {ew:.3e}", history=hist_str, matrix="Walpole", hetero=_hetero(cur), **base_key))
                            ntr += 2
                            continue
                        read(mat, which)
                        ntr += 1
                else:
                    _e2_state_apply(cur, tok)
                    _e2_impl_apply(mat, law, size, tok)
                    ntr += 1
            gotC, gotS = read(mat, "C"), read(mat, "S")
            again = read(mat, "C")  # a second read after scribbling on the first
            fresh = _e2_fresh(cur, a1, a2)
            wantC, wantS = read(fresh, "C", False), read(fresh, "S", False)
        except Exception as ex:  # every state of the alphabet is an admissible material: a result is promised
            v.append(viol("e2_raises", f"during [{hist_str}] an assignment / a read of C, S / building the fresh law raised "
                          f"{type(ex).__name__}: {str(ex)[:200]} (heterogeneous constants at that point: {_hetero(cur)!r})",
                          history=hist_str, hetero=_hetero(cur), exc=type(ex).__name__, **base_key))
            continue
        het = _hetero(cur)
        ntr += 6
        nstates += 1
        for nm, g, w in (("C", gotC, wantC), ("S", gotS, wantS), ("C_again", again, wantC)):
            e = relerr(g, w)
            if e > 1e-12:
                v.append(viol("e2_stale", f"after [{hist_str}] the law reads {nm} != freshly constructed law "
                              f"({law}, {st.mode()}): rel {e:.3e}, shapes {g.shape} vs {w.shape}",
                              history=hist_str, matrix=nm, hetero=het, **base_key))
        obs.append(float(np.sum(np.abs(gotC))))
        obs.append(float(np.sum(np.abs(gotS))))
    return {"violations": v[:40], "fingerprint": fp(law, mode, first, np.array(obs)), "nontrivial": first != "none",
            "transitions": ntr, "states": nstates, "outcome": ("ok" if not pruned else "ok_some_pruned") if not v else "violation",
            "pruned": pruned}
