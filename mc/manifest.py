"""Generates MANIFEST.json from the table below (run: /venv/bin/python -m mc.manifest)."""
import json
import os

ROOT = os.path.dirname(os.path.dirname(os.path.abspath(__file__)))

BASELINE_OFF = ("cd /repo && env -u EASYFEA_VERIF /venv/bin/python -m pytest -ra -q -p no:cacheprovider "
                "--timeout=900 --continue-on-collection-errors")

# id -> (design section, technique, level text, level note)
CHECKS = {
    "C06": ("DESIGN §4 C06",
            "exhaustive enumeration of every shape-function table entry (19 Lagrange types x 5 tables, 8 beam classes x 4 Hermite tables), each decided as a polynomial identity in Q[r,s,t] on the real lambdas",
            "complete enumeration of a finite table space on the implementation itself; each entry is an exact polynomial identity, i.e. valid at every point of the reference element",
            "trusted: Python fractions; rationalisation of float literals (round-trip checked); tolerance 1e-12 on coefficients for tables typed as 15-digit decimals"),
}

CHECKS["C07"] = ("DESIGN §4 C07",
    "exhaustive enumeration of every quadrature rule the factory accepts (n=1..40 per shape), every (element type, matrix type) pair, and every (element type, template/gmsh mesh, affine map) geometry and rank case, against exact reference integrals",
    "complete enumeration of the finite rule tables and of a bounded mesh/map alphabet on the implementation; linearity in the integrand reduces 'all polynomials' to the monomial basis",
    "trusted: fractions for reference-element integrals, numpy leggauss + Duffy collapse for mesh-level reference integrals, numpy eigvalsh for rank; tolerance 1e-13 (rules), 1e-11 (meshes)")

CHECKS["C05"] = ("DESIGN §4 C05",
    "explicit-state exploration (BFS over letter sequences (algo, params, dt), depth 2 quick / 3 thorough, states = (u,v,a) merged by fingerprint) of the real time-stepping code, every basis prior state at depth 1, against the documented scheme definitions as dense reference model",
    "every letter sequence up to the depth bound is executed on the real simulation and every step is checked against the documented update relations, the discrete equation on free dofs, the constraint values, the K/C/M weights as exact difference quotients, the Newton (residual) path, and the energy statements; one step is affine in (u_n,v_n,a_n,F) so the basis decides all prior states",
    "trusted: numpy dense algebra; the load is taken constant within a step; tolerances 1e-9/1e-10 relative")

CHECKS["C02"] = ("DESIGN §4 C02",
    "exhaustive enumeration (deviation-bounded quick / full product thorough) of simulation x element type x mesh x material x thickness x density configurations; dense spectral oracle on the real assembled K, C, M",
    "every configuration of the stated alphabets is assembled by the real code and decided by dense eigen-analysis: symmetry, PSD, K R = 0 for the analytic rigid/constant modes, nullity = rank(R), reduced SPD, M SPD and total mass",
    "trusted: numpy eigvalsh / QR; MeshZoo closed-form measures; spectral gap guard (ambiguous spectra are skipped and counted)")
CHECKS["C03"] = ("DESIGN §4 C03",
    "explicit-state exploration, unmerged: every operation sequence to depth 3 (quick) / 4 (thorough) over {assemble, add Lagrange condition, clear BCs, swap slot table, new values, switch real/complex, replace mesh, renumber} on a harness subclass of a real simulation; Assembly() compared after every operation with a dense scatter-add; all 24 node permutations of the 4-node mesh",
    "all histories up to the depth bound run on the real assembly code with its cached CSR reduction map; the oracle is an independent triple loop over the element arrays the simulation itself returns",
    "trusted: the documented dof convention node*dof_n+component; numpy; tolerance 1e-13")

CHECKS["C11"] = ("DESIGN §4 C11",
    "exhaustive enumeration of law class x dimension x parameter set x material axes x notation configurations, plus explicit-state exploration of all sequences of <= 2 parameter assignments interleaved with reads (differential against a freshly constructed law)",
    "every configuration of the stated alphabets is evaluated on the real law classes and change-of-basis helpers and compared with an independent fourth-order-tensor reference (own Kelvin-Mandel conversion, own rotation)",
    "trusted: numpy; own tensor <-> Kelvin-Mandel conversion; tolerance 1e-10..1e-12 relative")
CHECKS["C14"] = ("DESIGN §4 C14",
    "explicit-state exploration, unmerged: every sequence of public mutating operations (depth 2 with an observation after every operation, depth 3 with one final observation in quick; depth 3 thorough) for 11 simulation scenarios (every simulation type: elastic 2D/3D, anisotropic, thermal, hyperelastic, beam 2D/3D, phase-field with both irreversibility families, inelastic, user weak forms), depth 3-4 over reduced mesh / restore alphabets, all ordered pairs of parameter assignments on a model shared by two simulations, and the public beam operations; differential oracle = freshly built simulation in the final configuration",
    "all operation histories up to the depth bound are executed on the real objects with primed caches; no hand-written expected values: the live object must agree with a new mesh + new model + new simulation carrying the same configuration and state",
    "trusted: the harness's record of parameters and conditions; the live coordinates and state are read through public getters; phase-field compares the displacement system only")

CHECKS["C15"] = ("DESIGN §4 C15",
    "explicit-state exploration, unmerged: for 15 simulation scenarios and 7 prefixes every sequence of 15 operations {solve a/b, save iteration (plain / with user data), folder ''/A/B, restore 0/last (with and without query), read stored, Result(iter=0 / -1), replace mesh, Save+Load_Simu} up to depth 2 (quick; depth 3 over 5 folder / reload / restore operations after the two-mesh prefix) / 3 (thorough); every array handed out by a query is overwritten by the harness; invariants against the harness's own deep-copied snapshots after every operation",
    "all operation histories up to the depth bound are executed on the real simulations (in-memory and on-disk iterations); the oracle is a list of snapshots taken through public getters at save time",
    "trusted: deep copies taken by the harness; exact equality for stored entries, 1e-12 for restored fields; scratch folders under mkdtemp")

CHECKS["C08"] = ("DESIGN §4 C08",
    "explicit-state exploration of all rigid-motion histories of length <= 2 (quick) / 3 (thorough) over {translate, rotate 90, rotate generic, reflect} applied with the library's own Mesh.Translate/Rotate/Symmetry on 96 (domain, element type) pairs (gmsh polygons and extrusions, templates, meshes with curved interior edges, micro-scale bodies), invariants after every operation; exhaustive enumeration of point-location queries (reference lattice of every element x batch sizes x placements x monomial fields)",
    "every motion history up to the bound and every lattice query is executed on the real meshes; oracles: own numpy motion, shoelace/divergence-theorem measures, outward normals rebuilt from vertices and adjacency, exact monomial values",
    "trusted: numpy; MeshZoo closed-form geometry; tolerance 1e-9 (1e-6 where the library inverts the element map with least_squares)")
CHECKS["C10"] = ("DESIGN §4 C10",
    "exhaustive enumeration of (problem, dimension, element type, material, load, rigid motion) configurations; each transformed problem built up to three ways (library motion of a mesh copy, transformed coordinates, live simulation moved after a solve) and compared with the transformed solution of the original",
    "every configuration of the stated alphabets (incl. the special angles 90/180 degrees and generic seeded ones, reflections) is solved by the real code; covariance of u, K, M, stresses and energies, plus closed-form cantilevers in the member's own axes",
    "trusted: numpy rotations; closed-form beam formulas; tolerance 1e-8")
CHECKS["C13"] = ("DESIGN §4 C13",
    "exhaustive enumeration of weak-form programs over a grammar (terms M, G, A, Mv, L, Gs, E, V, FV with constant / per-element / coordinate-function coefficients; all single terms on all element types, all pairs on low-order types) x matrix type x mesh; compared with the built-in operators, with a dense scatter-add for Assemble, and with the dedicated Thermal/Elastic simulations for static, parabolic and Newmark steps",
    "every program of the bounded grammar is integrated by the real Field/Form machinery and compared entry-wise with the built-in operator combination",
    "trusted: the built-in operators as reference for symmetric forms (C01/C02/C07 check them independently); own Kelvin-Mandel conversion; tolerance 1e-12")

CHECKS["C12"] = ("DESIGN §4 C12",
    "exhaustive enumeration of FeArray terms over a grammar: all shapes (Ne,nPg,d) in {1,2,3}^3 plus d=6, operand kinds (FeArray rank 0/1/2/4, plain array, scalar, Field), every operator / reducer / axis / operand order at depth 1 and, merged by (kind, shape, dtype, layout, operator family), at depth 2",
    "every term of the bounded grammar is evaluated by the real FeArray dispatch and by explicit per-(e,p) loops; shape collisions Ne == nPg == d and size-1 axes are all enumerated",
    "trusted: numpy on tensor slices; states of depth-1 results merged by the attributes the dispatch reads; typing of axis-permuting numpy functions is left open by the property and only their values are compared")
CHECKS["C20"] = ("DESIGN §4 C20",
    "exhaustive enumeration of every part count Nproc = 1..Ne (+ the refused Ne+1) for 8 (quick) / 27 (thorough) gmsh meshes, and of all lists of <= 3 meshes over {A, shifted onto a shared edge/face, disjoint, copy} x map x merge options",
    "every part count the partitioner accepts is generated through the library's own Mesher and every invariant (single ownership, ghost layer = elements touching owned nodes, numbering kept, reproducibility, owned-row completeness of K/M/F, energy and reaction sums, Merge mapping) is checked on the real objects",
    "trusted: gmsh/METIS as environment; MPI execution itself is not available (serial emulation through the per-part meshes)")

CHECKS["C01"] = ("DESIGN §4 C01",
    "exhaustive enumeration (deviation bound 1 quick, bound 3 / full product thorough) of problem x element type x mesh x affine map x numbering x material x input form configurations, every basis linear field per configuration; all 4! (6!) node numberings of the 2-element meshes",
    "every configuration of the stated alphabets is solved by the real pipeline; by linearity of the solve in the prescribed field the basis of linear fields decides all linear fields; closed-form oracle for interior values, strain, stress, energy, beam forces",
    "trusted: numpy closed forms (own Kelvin-Mandel conversion, own laws in zoo/c01_ref.py); tolerance 1e-9")
CHECKS["C04"] = ("DESIGN §4 C04",
    "exhaustive enumeration of ALL ordered boundary-condition programs of <= 3 atoms (156) x ground support position x orphan node x resolution (elimination / Lagrange / beam connections) x mode (linear, Newton-incremental, one implicit time step) x every installed solver backend, on 5 small problems; plus bounded histories on one live simulation (caller-owned value arrays reused, conditions entered in stages with Lagrange conditions present), hinged connections against closed forms and every Krylov backend on a slender problem",
    "every BC program of the bounded grammar is solved by the real code with every backend; dense numpy elimination / KKT reference; sum convention for duplicated dofs as documented in _Bc_Add_Dirichlet",
    "trusted: numpy dense solves; petsc/pypardiso/mumps and MPI not installed and not exercised; Krylov backends held to 20x their default rtol")
CHECKS["C16"] = ("DESIGN §4 C16",
    "exhaustive enumeration of simulation x variant x dimension x mesh x state assignment x EVERY advertised result name x nodeValues, plus constant-field conversion on every mesh and reaction balance on solved clamped problems",
    "every name of Results_Available() of every simulation type is queried on non-equilibrium states and compared with an independent numpy recomputation (relation table per simulation)",
    "trusted: numpy; own strain/stress/von Mises/energy formulas; results whose definition the library does not document are compared by consistency only")
CHECKS["C17"] = ("DESIGN §4 C17",
    "exhaustive enumeration of 76 split configurations x strain-state letters (15 in 2D, 21 in 3D) alone, in ALL ordered pairs on the two Gauss points of one element and across two elements, 8 amplitudes for degenerate letters; explicit-state exploration (unmerged) of all load-letter sequences of length <= 3 (quick) / 4 (thorough) for 30+8 (solver, regularisation, split) configurations",
    "every configuration and every load history up to the bound runs on the real model / staggered solver; oracles: numpy eigh positive parts, closed-form psi+, partition identities, running maximum of the reference psi+ for the history field, monotone saved damage",
    "trusted: numpy.linalg.eigh; states with an eigenvalue gap in (1e-10, 1e-3) relative would be skipped and counted (none occur)")

CHECKS["C09"] = ("DESIGN §4 C09",
    "exhaustive enumeration of simulation x element type x mesh variant x load kind (point, line, surface, volume, pressure) x intensity form (constant, nodal array, every monomial up to the rule's degree) x node selection (full face, two faces, sub-part, face + stray nodes, all) x thickness; beams: theory x SEG order x dimension x member orientation",
    "every configuration of the stated alphabets is applied through the real load API and the produced nodal force vector is summed; linear in the density, so the monomial basis decides polynomial loads; reference integrals from own geometry and own Gauss-Legendre/Duffy rules",
    "trusted: zoo/c09_geom.py reference geometry and quadrature (independent of EasyFEA tables); tolerance 1e-10 x integral of |g|")

CHECKS["C18"] = ("DESIGN §4 C18",
    "exhaustive enumeration of (law x element type) x deformation alphabet (57 letters in 2D, 129 in 3D: all diagonal stretches from {0.8,1,1.3}^dim, shears, generic F, each under 4 rotations, one inhomogeneous field) x EVERY element dof as perturbation direction at every Gauss point; (operator x law x element type) for the 7 nonlinear operators; free-motion energy runs over body x initial velocity x dt x stress option",
    "every letter / dof / operator of the stated alphabets is evaluated on the real laws and operators; oracles: Richardson-extrapolated differences of the implementation's own Compute_W and residuals (truncation estimate added to the tolerance, inconclusive entries counted), objectivity, reference state, discrete energy balance at every step",
    "trusted: numpy kinematics written by the harness (own Kelvin-Mandel form of delta E); fixed step sizes 2e-6..8e-6; runs whose Newton does not converge are skipped and counted")

CHECKS["C19"] = ("DESIGN §4 C19",
    "explicit-state exploration: material level = BFS over (total strain, internal variables) states merged by fingerprint, 20 strain-increment letters, depth 2-3 quick / 1-4 thorough, for every behaviour combination the constructor accepts within 2 deviations of the default (quick) / the full accepted product x 3 dimension modes (thorough), both local solvers in every case; simulation level = all unmerged sequences over {Solve(a), Solve(b), Solve again, Save_Iter, Set_Iter(0), Set_Iter(1)} to depth 4 (quick) / 5 (thorough)",
    "every strain path / operation sequence up to the bound runs on the real Behavior.Integrate and Simulations.InElastic; oracles: documented yield/flow/hardening definitions in numpy, Richardson differences for the tangent (kinks skipped and counted), byte-level purity of the inputs, spy on the committed state handed to Integrate",
    "trusted: numpy reference of the documented laws; steps the library itself reports as not converged are counted and not judged (the property quantifies over converging steps)")

PENDING_REASON = "not claimed yet: the bounded-exhaustive check for this property is designed (DESIGN.md §4) but not built in the committed tree"


def build():
    props = [json.loads(l)["id"] for l in open(os.path.join(ROOT, "properties.jsonl"))]
    checks = []
    for pid in props:
        if pid not in CHECKS:
            continue
        ref, tech, text, note = CHECKS[pid]
        checks.append({
            "property_id": pid,
            "quick_cmd": f"./check {pid} --tier quick",
            "thorough_cmd": f"./check {pid} --tier thorough",
            "evidence_file": f"/verif/evidence/{pid}.json",
            "replay_cmd_template": f"./check {pid} --replay {{path}}",
            "engine": "mc",
            "level_claimed": {"category": "model_checking", "text": text, "design_ref": ref},
            "level_note": note,
            "technique": tech,
        })
    man = {
        "version": 1,
        "setup_cmd": "mkdir -p evidence replays && /venv/bin/python -m compileall -q mc zoo props >/dev/null 2>&1; true",
        "hooks": {
            "guard": "EASYFEA_VERIF",
            "enable": "no source hooks: checks import /repo in place through /venv's editable install (./check exports EASYFEA_VERIF=1 for uniformity; nothing in /repo reads it)",
            "baseline_off_cmd": BASELINE_OFF,
            "source_commits": [],
            "add_only": True,
        },
        "engines": [{
            "name": "mc",
            "path": "/verif/mc",
            "serves_properties": [c["property_id"] for c in checks],
            "kind_free_text": "hand-written explicit-state / bounded-exhaustive explorer driving the real implementation: E1 complete product or deviation-bounded enumeration of configuration alphabets, E2 breadth-first enumeration of operation histories with replay; 16-way fork pool; replay files; known-findings classification",
        }],
        "checks": checks,
        "not_applicable": [{"property_id": pid, "reason": PENDING_REASON} for pid in props if pid not in CHECKS],
        "notes": "Every check explores the real implementation exhaustively within stated bounds (see DESIGN.md). VERIF_SEED only selects the generic representatives of an alphabet.",
    }
    with open(os.path.join(ROOT, "MANIFEST.json"), "w") as f:
        json.dump(man, f, indent=1)
    return man


if __name__ == "__main__":
    m = build()
    print("checks:", [c["property_id"] for c in m["checks"]])
