"""CLI + exhaustive case runner shared by all properties.

A property module `props/cNN.py` exposes

    PROPERTY = "CNN"
    def cases(tier: str, seed: int) -> list[dict]      # complete enumeration of the bounded space
    def run_case(case: dict) -> dict                   # executes ONE case on the real implementation
    def describe(tier: str, seed: int) -> dict         # rule / alphabet sizes / assumptions / bound

`run_case` returns
    {"violations": [ {"check": str, "key": {...}, "detail": str}, ... ],
     "fingerprint": str,        # canonical hash of the observed outcome (state id)
     "nontrivial": bool,        # by the module's stated rule
     "outcome": str,            # coarse outcome class (for the "distinct outcomes" count)
     "transitions": int,        # operations of the implementation executed in this case
     "states": int (optional),  # states visited inside the case (merged BFS explorations)
     "skipped": str|None}       # assumption guard that made the case inconclusive

The runner enumerates everything `cases` yields (never samples), distributes the cases over a
fork pool, classifies violations against known_findings.json, re-executes every new violation from
its replay file in a fresh process, writes evidence/<id>.json, prints VIOLATION / KNOWN-FINDING lines.
"""

from __future__ import annotations

import argparse
import hashlib
import importlib
import json
import multiprocessing as mp
import os
import signal
import subprocess
import sys
import time
import traceback

ROOT = os.path.dirname(os.path.dirname(os.path.abspath(__file__)))
REPO = os.environ.get("VERIF_REPO", "/repo")
if REPO != "/repo":
    sys.path.insert(0, REPO)
if ROOT not in sys.path:
    sys.path.insert(0, ROOT)

CASE_TIMEOUT_S = int(os.environ.get("VERIF_CASE_TIMEOUT", "1500"))


def _load(prop: str):
    return importlib.import_module(f"props.{prop.lower()}")


class _CaseTimeout(BaseException):
    """not an Exception: a property module's own `except Exception` must not mistake the harness timer for a failure of the code under test"""


def _alarm(signum, frame):
    raise _CaseTimeout()


_MOD = None


def _init_worker(prop: str):
    global _MOD
    _MOD = _load(prop)
    try:
        import gc

        gc.freeze()
    except Exception:
        pass


def execute_case(mod, case: dict) -> dict:
    """Runs one case; converts an unexpected exception of the implementation into a violation."""
    t0 = time.time()
    signal.signal(signal.SIGALRM, _alarm)
    signal.alarm(CASE_TIMEOUT_S)
    try:
        res = mod.run_case(case)
    except _CaseTimeout:
        # the wall-clock limit says nothing about the property (the machine may simply be overloaded): the case is NOT explored;
        # it is counted as skipped, reported on stderr, and makes the evidence non-exhaustive
        print(f"HARNESS-WARNING case exceeded {CASE_TIMEOUT_S}s and was skipped: {json.dumps(case, default=str)[:300]}", file=sys.stderr)
        res = {
            "violations": [],
            "fingerprint": "timeout",
            "nontrivial": False,
            "outcome": "timeout",
            "transitions": 0,
            "skipped": "harness_timeout",
        }
    except Exception as err:  # the property promises a result; a crash is a failure to deliver it
        tb = traceback.format_exc(limit=6)
        res = {
            "violations": [
                {
                    "check": "exception",
                    "key": {"check": "exception", "type": type(err).__name__},
                    "detail": f"{type(err).__name__}: {err}\n{tb}",
                }
            ],
            "fingerprint": "exception:" + type(err).__name__,
            "nontrivial": False,
            "outcome": "exception",
            "transitions": 0,
        }
    finally:
        signal.alarm(0)
    res.setdefault("violations", [])
    res.setdefault("fingerprint", "")
    res.setdefault("nontrivial", True)
    res.setdefault("outcome", "ok" if not res["violations"] else "violation")
    res.setdefault("transitions", 1)
    res.setdefault("skipped", None)
    res["wall"] = time.time() - t0
    return res


def _work(args):
    idx, case = args
    return idx, execute_case(_MOD, case)


def load_findings(prop: str) -> list[dict]:
    path = os.path.join(ROOT, "known_findings.json")
    if not os.path.exists(path):
        return []
    with open(path) as f:
        data = json.load(f)
    return [e for e in data.get("findings", []) if e.get("property") == prop]


def match_finding(viol_key: dict, findings: list[dict]):
    """A finding suppresses a violation only when every (k, v) of its `match` equals the violation key.
    `fixed` entries suppress nothing."""
    for e in findings:
        if e.get("status") != "known":
            continue
        m = e.get("match", {})
        ok = True
        for k, v in m.items():
            kv = viol_key.get(k, None)
            if isinstance(v, list):
                if kv not in v:
                    ok = False
                    break
            elif kv != v:
                ok = False
                break
        if ok:
            return e
    return None


def _sha(obj) -> str:
    return hashlib.sha1(json.dumps(obj, sort_keys=True, default=str).encode()).hexdigest()[:16]


def write_replay(prop: str, case: dict, viol: dict, tier: str, seed: int) -> str:
    d = os.path.join(ROOT, "replays", prop)
    os.makedirs(d, exist_ok=True)
    name = _sha({"case": case, "check": viol["check"], "key": viol["key"]}) + ".json"
    path = os.path.join(d, name)
    with open(path, "w") as f:
        json.dump(
            {
                "property": prop,
                "tier": tier,
                "seed": seed,
                "case": case,
                "check": viol["check"],
                "key": viol["key"],
                "detail": viol["detail"][:4000],
            },
            f,
            indent=1,
            default=str,
        )
    return path


def replay(prop: str, path: str) -> int:
    with open(path) as f:
        rp = json.load(f)
    os.environ["VERIF_SEED"] = str(rp.get("seed", 0))
    mod = _load(prop)
    res = execute_case(mod, rp["case"])
    want = rp.get("key")
    hit = [v for v in res["violations"] if want is None or v["key"] == want]
    for v in res["violations"]:
        print(f"  [{v['check']}] key={json.dumps(v['key'], sort_keys=True)}")
        print("   ", v["detail"][:1500].replace("\n", "\n    "))
    if hit:
        print(f"VIOLATION property={prop} replay={path}")
        return 1
    print(f"replay {path}: no violation with the recorded key reproduced"
          + (" (other violations above)" if res["violations"] else ""))
    return 1 if res["violations"] else 0


def confirm_in_fresh_process(prop: str, path: str) -> bool:
    """Re-executes a replay file in a fresh interpreter; True iff the same violation key shows again."""
    env = dict(os.environ)
    cmd = [sys.executable, "-m", "mc.run", prop, "--replay", path]
    try:
        out = subprocess.run(cmd, cwd=ROOT, env=env, capture_output=True, text=True,
                             timeout=CASE_TIMEOUT_S + 120)
    except subprocess.TimeoutExpired:
        return True
    return f"VIOLATION property={prop} replay={path}" in out.stdout


def main(argv=None) -> int:
    ap = argparse.ArgumentParser()
    ap.add_argument("prop")
    ap.add_argument("--tier", default=os.environ.get("VERIF_TIER", "quick"),
                    choices=["quick", "thorough"])
    ap.add_argument("--replay", default=None)
    ap.add_argument("--workers", type=int, default=int(os.environ.get("VERIF_WORKERS", "16")))
    ap.add_argument("--filter", default=None,
                    help="substring that the JSON of a case must contain (debugging only)")
    ap.add_argument("--list", action="store_true")
    args = ap.parse_args(argv)
    prop = args.prop.upper()
    seed = int(os.environ.get("VERIF_SEED", "0") or 0)
    os.environ["VERIF_SEED"] = str(seed)

    if args.replay:
        return replay(prop, args.replay)

    t0 = time.time()
    mod = _load(prop)
    tier = args.tier
    os.environ["VERIF_TIER"] = tier
    cases = list(mod.cases(tier, seed))
    if args.filter:
        cases = [c for c in cases if args.filter in json.dumps(c, sort_keys=True, default=str)]
    if args.list:
        for c in cases:
            print(json.dumps(c, sort_keys=True, default=str))
        print(len(cases), "cases")
        return 0
    desc = mod.describe(tier, seed)
    findings = load_findings(prop)

    results: list = [None] * len(cases)
    nworkers = max(1, min(args.workers, len(cases)))
    if nworkers == 1:
        for i, c in enumerate(cases):
            results[i] = execute_case(mod, c)
    else:
        ctx = mp.get_context("fork")
        chunk = max(1, min(8, len(cases) // (nworkers * 8) or 1))
        with ctx.Pool(nworkers, initializer=_init_worker, initargs=(prop,)) as pool:
            for idx, res in pool.imap_unordered(_work, list(enumerate(cases)), chunksize=chunk):
                results[idx] = res

    # ---- classification -------------------------------------------------------------------
    fps_all, fps_nontrivial, outcomes = set(), set(), {}
    transitions = states_extra = 0
    skipped: dict[str, int] = {}
    new_viol, known_hits = [], {}
    for case, res in zip(cases, results):
        fp = res["fingerprint"] or _sha(case)
        fps_all.add(fp)
        if res["nontrivial"] and not res["skipped"]:
            fps_nontrivial.add(fp)
        outcomes[res["outcome"]] = outcomes.get(res["outcome"], 0) + 1
        transitions += int(res["transitions"])
        states_extra += int(res.get("states", 0))
        if res["skipped"]:
            skipped[res["skipped"]] = skipped.get(res["skipped"], 0) + 1
        for v in res["violations"]:
            e = match_finding(v["key"], findings)
            if e is not None:
                known_hits.setdefault(e["id"], [e, 0])[1] += 1
            else:
                new_viol.append((case, v))

    # ---- report ---------------------------------------------------------------------------
    for fid, (e, n) in sorted(known_hits.items()):
        print(f"KNOWN-FINDING: property={prop} {e['what']} [{fid}; {n} case(s)]")
    confirmed, unconfirmed = [], []
    seen_keys = set()
    for case, v in new_viol:
        k = json.dumps(v["key"], sort_keys=True)
        first = k not in seen_keys
        seen_keys.add(k)
        if not first and len(confirmed) >= 25:
            continue
        if len(confirmed) + len(unconfirmed) >= 200:
            continue  # cap on replay files; the evidence still counts every violation
        path = write_replay(prop, case, v, tier, seed)
        if first and len([1 for _ in confirmed]) < 8:
            okc = confirm_in_fresh_process(prop, path)
        else:
            okc = True
        (confirmed if okc else unconfirmed).append((path, v))
    for path, v in confirmed[:25]:
        print(f"VIOLATION property={prop} replay={path}")
        print(f"  [{v['check']}] {json.dumps(v['key'], sort_keys=True)} :: {v['detail'][:300]}")
    for path, v in unconfirmed:
        print(f"HARNESS-ERROR property={prop} non-reproducible in a fresh process: {path}", file=sys.stderr)

    wall = time.time() - t0
    samples = []
    step = max(1, len(cases) // 4)
    for i in range(0, len(cases), step):
        samples.append({"case": cases[i], "outcome": results[i]["outcome"],
                        "fingerprint": results[i]["fingerprint"][:16]})
        if len(samples) >= 5:
            break
    n_states = len(fps_all) + states_extra
    cov = {
        "states": max(1, n_states),
        "transitions": max(1, transitions),
        "traces_validated_against_impl": len(cases),
        "samples": samples,
        "evaluations": len(cases),
        "distinct_nontrivial": len(fps_nontrivial),
        "rule": desc.get("rule", ""),
        "exhaustive": bool(desc.get("exhaustive", True)) and not args.filter and "harness_timeout" not in skipped,
        "bound": desc.get("bound", ""),
        "alphabet": desc.get("alphabet", {}),
        "distinct_outcome_fingerprints": len(fps_all),
        "outcome_classes": outcomes,
        "skipped_by_assumption_guard": skipped,
        "known_findings_hit": {fid: n for fid, (e, n) in known_hits.items()},
        "new_violations": len(new_viol),
        "explanation": desc.get("explanation", ""),
    }
    ev = {
        "property_id": prop,
        "tier": tier,
        "seed": seed,
        "level": "model_checking",
        "coverage": cov,
        "assumptions": desc.get("assumptions", []),
        "wall_s": round(wall, 3),
        "violations": len(new_viol),
    }
    if not args.filter:
        os.makedirs(os.path.join(ROOT, "evidence"), exist_ok=True)
        tmp = os.path.join(ROOT, "evidence", f".{prop}.json.tmp")
        with open(tmp, "w") as f:
            json.dump(ev, f, indent=1, default=str)
        os.replace(tmp, os.path.join(ROOT, "evidence", f"{prop}.json"))
    print(f"[{prop} {tier} seed={seed}] cases={len(cases)} states={cov['states']} transitions={cov['transitions']} "
          f"distinct_nontrivial={len(fps_nontrivial)} outcomes={outcomes} skipped={skipped} "
          f"known={sum(n for _, n in known_hits.values())} new_violations={len(new_viol)} wall={wall:.1f}s")
    if unconfirmed and not confirmed:
        return 2
    return 1 if confirmed else 0


if __name__ == "__main__":
    sys.exit(main())
