"""Small helpers shared by property drivers: fingerprints, violations, seeded generic members."""
from __future__ import annotations

import hashlib
import json
import os

import numpy as np


def seed() -> int:
    return int(os.environ.get("VERIF_SEED", "0") or 0)


def rng(*salt) -> np.random.Generator:
    """Deterministic generator for the *generic representatives* of an alphabet (the only use of the seed)."""
    h = hashlib.sha1(json.dumps([seed(), *salt], default=str).encode()).digest()
    return np.random.default_rng(int.from_bytes(h[:8], "little"))


def fp(*objs, digits: int = 8) -> str:
    """SHA-1 fingerprint of observables; arrays are rounded relative to their max magnitude."""
    h = hashlib.sha1()
    for o in objs:
        if isinstance(o, np.ndarray) or hasattr(o, "__array__"):
            a = np.asarray(o)
            if a.dtype.kind in "fc":
                a = np.asarray(a, dtype=complex if a.dtype.kind == "c" else float)
                sc = np.max(np.abs(a)) if a.size else 0.0
                if not np.isfinite(sc) or sc == 0:
                    sc = 1.0
                a = np.round(a / sc, digits) + 0.0
                h.update(repr(round(float(np.log10(sc)), 6)).encode())
            h.update(str(a.shape).encode())
            h.update(np.ascontiguousarray(a).tobytes())
        else:
            h.update(json.dumps(o, sort_keys=True, default=str).encode())
    return h.hexdigest()[:20]


def viol(check: str, detail: str, **key) -> dict:
    k = {"check": check}
    k.update(key)
    return {"check": check, "key": k, "detail": detail}


def relerr(a, b, scale=None) -> float:
    a = np.asarray(a, dtype=float) if not np.iscomplexobj(a) else np.asarray(a)
    b = np.asarray(b, dtype=float) if not np.iscomplexobj(b) else np.asarray(b)
    if a.shape != b.shape:
        return float("inf")
    if a.size == 0:
        return 0.0
    if not (np.all(np.isfinite(a)) and np.all(np.isfinite(b))):
        return float("inf")
    if scale is None:
        scale = max(np.max(np.abs(b)), np.max(np.abs(a)), 1e-300)
    return float(np.max(np.abs(a - b)) / scale)


def todense(A) -> np.ndarray:
    return A.toarray() if hasattr(A, "toarray") else np.asarray(A)


def deviations(factors: dict[str, list], bound: int | None) -> list[dict]:
    """E1 enumeration. `factors` maps factor name -> alphabet (first entry = default).
    bound=None -> full product; bound=d -> every configuration differing from the default
    in at most d factors (complete within that bound)."""
    import itertools

    names = list(factors)
    if bound is None or bound >= len(names):
        return [dict(zip(names, combo)) for combo in itertools.product(*[factors[n] for n in names])]
    out = []
    default = {n: factors[n][0] for n in names}
    for d in range(bound + 1):
        for which in itertools.combinations(names, d):
            alts = [factors[n][1:] for n in which]
            for combo in itertools.product(*alts):
                c = dict(default)
                c.update(dict(zip(which, combo)))
                out.append(c)
    return out
