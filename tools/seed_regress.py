"""Re-runs every seeded change against the CURRENT checks (no test-suite run): scratch worktree of /repo HEAD, git apply patch.diff,
./check with VERIF_REPO for the checks that caught it before; writes seeded/REGRESSION.md.  usage: tools/seed_regress.py [name-prefix]"""
import glob, json, os, subprocess, sys, time
ROOT = "/verif"
pref = sys.argv[1] if len(sys.argv) > 1 else ""
rows = []
for f in sorted(glob.glob(f"{ROOT}/seeded/*/meta.json")):
    name = os.path.basename(os.path.dirname(f))
    if not name.startswith(pref):
        continue
    m = json.load(open(f))
    checks = [r["check"] for r in m["confirmed"]["checks_against_changed_tree"] if r["exit"] == 1] or [m["property"]]
    wt = f"/tmp/sr/{name}"
    subprocess.run(["git", "-C", "/repo", "worktree", "remove", "--force", wt], capture_output=True)
    os.makedirs("/tmp/sr", exist_ok=True)
    subprocess.run(["git", "-C", "/repo", "worktree", "add", "--detach", wt, "HEAD"], capture_output=True)
    ap = subprocess.run(["git", "apply", f"{ROOT}/seeded/{name}/patch.diff"], cwd=wt, capture_output=True, text=True)
    if ap.returncode != 0:
        rows.append((name, "PATCH DOES NOT APPLY on HEAD", ""))
        subprocess.run(["git", "-C", "/repo", "worktree", "remove", "--force", wt], capture_output=True)
        continue
    res = []
    for c in checks:
        t0 = time.time()
        env = dict(os.environ, VERIF_REPO=wt)
        out = subprocess.run(["./check", c, "--tier", "quick", "--workers", os.environ.get("WORKERS", "12")], cwd=ROOT, env=env, capture_output=True, text=True)
        nv = out.stdout.count("\nVIOLATION") + (1 if out.stdout.startswith("VIOLATION") else 0)
        res.append(f"{c}: exit {out.returncode}, {nv} VIOLATION lines, {time.time() - t0:.0f}s")
    subprocess.run(["git", "checkout", "--", "evidence"], cwd=ROOT, capture_output=True)
    rows.append((name, "; ".join(res), "caught" if all("exit 1" in r for r in res) else "NOT CAUGHT"))
    subprocess.run(["git", "-C", "/repo", "worktree", "remove", "--force", wt], capture_output=True)
    print(rows[-1], flush=True)
head = subprocess.run(["git", "-C", "/repo", "log", "--oneline", "-1"], capture_output=True, text=True).stdout.strip()
with open(f"{ROOT}/seeded/REGRESSION.md", "w") as fo:
    fo.write(f"# Seeded changes re-run against the current quick checks\n\n/repo HEAD: `{head}`; patches applied in scratch worktrees (`VERIF_REPO`), repository suite not re-run here.\n\n| seeded change | checks | verdict |\n|---|---|---|\n")
    for r in rows:
        fo.write(f"| {r[0]} | {r[1]} | {r[2]} |\n")
print("done", len(rows), "not caught:", [r[0] for r in rows if r[2] != "caught"])
