#!/bin/bash
# usage: [MUTDIR=/tmp/mut] [NAMES="m1 m2 m3"] tools/seedqueue.sh C14 C15 ...  -> runs seedtest for each change sequentially, logs in /tmp/sw_<P>_<m>.log
MUTDIR=${MUTDIR:-/tmp/mut}; NAMES=${NAMES:-"m1 m2 m3"}
for P in "$@"; do
  for m in $NAMES; do
    if [ -f $MUTDIR/$P/_out/$m.diff ]; then
      CHECK_N=${CHECK_N:-8} SUITE_N=${SUITE_N:-6} /verif/tools/seedtest.sh $P $m $MUTDIR/$P/_out/$m.diff $MUTDIR/$P/_out/demo_$m.py $MUTDIR/$P/_out/$m.json $EXTRA_CHECKS > /tmp/sw_${P}_$m.log 2>&1
    fi
  done
  echo finished > /tmp/sw_${P}_done_$(echo $NAMES | tr ' ' '_')
done
