#!/bin/bash
# usage: tools/seedqueue.sh C14 C15 ...   -> runs seedtest for m1..m3 of each property sequentially, logs in /tmp/sw_<P>_<m>.log
for P in "$@"; do
  for m in m1 m2 m3; do
    if [ -f /tmp/mut/$P/_out/$m.diff ]; then
      CHECK_N=${CHECK_N:-8} SUITE_N=${SUITE_N:-6} /verif/tools/seedtest.sh $P $m /tmp/mut/$P/_out/$m.diff /tmp/mut/$P/_out/demo_$m.py /tmp/mut/$P/_out/$m.json > /tmp/sw_${P}_$m.log 2>&1
    fi
  done
  echo finished > /tmp/sw_${P}_done
done
