#!/bin/bash
# usage: tools/trypatch.sh <patch.diff> <CHECK> [check args...] : runs one check against a scratch worktree of /repo HEAD with the patch applied
PATCH=$1; C=$2; shift 2
WT=/tmp/tp/$$; mkdir -p /tmp/tp
git -C /repo worktree add --detach $WT HEAD >/dev/null 2>&1 || exit 2
( cd $WT && git apply "$PATCH" ) || { echo "PATCH DOES NOT APPLY"; git -C /repo worktree remove --force $WT; exit 3; }
cd /verif; VERIF_REPO=$WT ./check $C "$@" > /tmp/tp/$$.out 2>&1; RC=$?
grep -c '^VIOLATION' /tmp/tp/$$.out; grep -A1 '^VIOLATION' /tmp/tp/$$.out | sed -n 2p | cut -c1-400; tail -1 /tmp/tp/$$.out | cut -c1-300
git checkout -- evidence 2>/dev/null
git -C /repo worktree remove --force $WT; rm -f /tmp/tp/$$.out
echo "exit=$RC"
