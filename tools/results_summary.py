"""Runs a check in-process (no replay files) and prints violation counts grouped by (check, a few key fields)."""
import sys, json, collections, os
sys.path.insert(0, '/verif')
os.environ.setdefault("VERIF_SEED","0")
import multiprocessing as mp
from mc import run
prop=sys.argv[1]; tier=sys.argv[2] if len(sys.argv)>2 else "quick"; flt=sys.argv[3] if len(sys.argv)>3 else None
group=sys.argv[4].split(",") if len(sys.argv)>4 else ["check","scn"]
mod=run._load(prop); cases=list(mod.cases(tier,0))
if flt: cases=[c for c in cases if flt in json.dumps(c,sort_keys=True)]
ctx=mp.get_context("fork")
with ctx.Pool(12, initializer=run._init_worker, initargs=(prop,)) as pool:
    res=pool.map(run._work, list(enumerate(cases)), chunksize=4)
c=collections.Counter(); ex={}
for idx,r in res:
    for v in r["violations"]:
        k=tuple(str(v["key"].get(g)) for g in group)
        c[k]+=1; ex.setdefault(k,(cases[idx],v["detail"][:260]))
for k,n in c.most_common(60):
    print(n,k); print("     ",json.dumps(ex[k][0])[:200]); print("     ",ex[k][1].replace("\n"," | "))
print("cases",len(cases),"violating groups",len(c))
