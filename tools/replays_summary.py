import json,glob,collections,sys
prop=sys.argv[1]; c=collections.Counter(); ex={}
for f in glob.glob(f'/verif/replays/{prop}/*.json'):
    r=json.load(open(f)); k=r['key']; case=r['case']
    kk=(k.get('check'), k.get('type'), case.get('scn') or case.get('kind'), r['detail'].split('\n')[0][:110])
    c[kk]+=1; ex.setdefault(kk, f)
for kk,n in c.most_common(40): print(n, kk, ex[kk].split('/')[-1])
