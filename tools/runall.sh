#!/bin/bash
# runs every registered quick check once; usage: tools/runall.sh [seed] [tier]
cd "$(dirname "$(readlink -f "$0")")/.."
SEED=${1:-0}; TIER=${2:-quick}
for id in $(/venv/bin/python -c "import json;print(' '.join(c['property_id'] for c in json.load(open('MANIFEST.json'))['checks']))"); do
  s=$(date +%s)
  VERIF_SEED=$SEED ./check $id --tier $TIER --workers ${WORKERS:-12} > /tmp/runall_${id}_s${SEED}_${TIER}.log 2>&1; rc=$?
  e=$(date +%s)
  echo "$id seed=$SEED tier=$TIER exit=$rc wall=$((e-s))s viol_lines=$(grep -c '^VIOLATION' /tmp/runall_${id}_s${SEED}_${TIER}.log) :: $(tail -1 /tmp/runall_${id}_s${SEED}_${TIER}.log | cut -c1-160)"
done
[ "${KEEP_EVIDENCE:-0}" = "1" ] || git checkout -- evidence 2>/dev/null
