"""Regenerates the two generated tables of DESIGN.md (between the BEGIN/END markers) from known_findings.json and seeded/*/meta.json."""
import glob, json, os, re
ROOT = "/verif"
d = json.load(open(f"{ROOT}/known_findings.json"))
rows = ["| id | property | disposition | failing input (match) | what |", "|---|---|---|---|---|"]
for e in d["findings"]:
    disp = f"fixed in `{e.get('commit')}`" if e["status"] == "fixed" else "**known** (recorded, not repaired)"
    what = re.sub(r"^fixed: property=\S+ \S+ ", "", e["what"]).replace("|", "\\|")
    rows.append(f"| {e['id']} | {e['property']} | {disp} | `{json.dumps(e['match'])}` | {what} |")
ftab = "\n".join(rows)
rows = ["| seeded change | breaks | what it is | needs to manifest | repo suite with it | caught by (quick) | note |", "|---|---|---|---|---|---|---|"]
for f in sorted(glob.glob(f"{ROOT}/seeded/*/meta.json")):
    m = json.load(open(f))
    c = m["confirmed"]
    caught = []
    for r in c["checks_against_changed_tree"]:
        first = re.search(r"\[(\w+)\]", r.get("first", "") or "")
        caught.append(f"{r['check']}: " + (f"VIOLATION ({first.group(1)})" if r["exit"] == 1 and first else ("VIOLATION" if r["exit"] == 1 else "**missed**")))
    demo = f"demo {c['demo_exit_without_change']}→{c['demo_exit_with_change']}"
    rows.append("| {} | {} | {} | {} | {}; {} | {} | {} |".format(
        os.path.basename(os.path.dirname(f)), m["property"], (m.get("summary") or "").replace("|", "\\|")[:220],
        (m.get("needs_to_manifest") or "").replace("|", "\\|")[:200], c["repo_suite_with_change"].split(" in ")[0], demo,
        "; ".join(caught), (m.get("note") or "").replace("|", "\\|")[:260]))
stab = "\n".join(rows)
p = f"{ROOT}/DESIGN.md"
s = open(p).read()
s = re.sub(r"(<!-- BEGIN FINDINGS -->).*?(<!-- END FINDINGS -->)", lambda mm: mm.group(1) + "\n" + ftab + "\n" + mm.group(2), s, flags=re.S)
s = re.sub(r"(<!-- BEGIN SEEDED -->).*?(<!-- END SEEDED -->)", lambda mm: mm.group(1) + "\n" + stab + "\n" + mm.group(2), s, flags=re.S)
open(p, "w").write(s)
print("findings", len(d["findings"]), "seeded", len(glob.glob(f"{ROOT}/seeded/*/meta.json")))
