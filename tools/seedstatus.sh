#!/bin/bash
for f in /tmp/sw_C*_m*.log; do b=$(basename $f .log); P=${b#sw_}; 
 echo "$P: demo $(grep -o 'demo_exit_without_change": [0-9]*' $f | grep -o '[0-9]*$')->$(grep -o 'demo_exit_with_change": [0-9]*' $f | grep -o '[0-9]*$') suite[$(grep -o 'repo_suite_with_change": "[^"]*' $f | cut -c27-50)] check_exit=$(grep -A3 checks_against $f | grep -o '"exit": [0-9]*' | grep -o '[0-9]*$' | tr '\n' ',') $(grep -o 'PATCH DOES NOT APPLY' $f)"; done
