#!/bin/bash
# usage: tools/seedtest.sh <PROP> <name> <patch.diff> <demo.py> <src.json> [checks to run, default PROP] 
# Confirms a seeded change: applies it in a scratch worktree of /repo HEAD, runs the demo with/without, the repo test-suite,
# and the quick check(s) against the worktree (VERIF_REPO). Writes /verif/seeded/<PROP>_<name>/{patch.diff,demo.py,meta.json}.
set -u
P=$1; N=$2; PATCH=$3; DEMO=$4; SRC=$5; shift 5
CHECKS=${*:-$P}
WT=/tmp/sw/${P}_${N}
OUT=/verif/seeded/${P}_${N}
mkdir -p /tmp/sw "$OUT"
git -C /repo worktree remove --force "$WT" >/dev/null 2>&1
git -C /repo worktree add --detach "$WT" HEAD >/dev/null 2>&1 || { echo "worktree failed"; exit 2; }
cp "$PATCH" "$OUT/patch.diff"; cp "$DEMO" "$OUT/demo.py"
cd "$WT"
( PYTHONPATH=$WT timeout 300 /venv/bin/python "$OUT/demo.py" >/tmp/sw/${P}_${N}.demo0 2>&1 ); D0=$?
if ! git apply "$OUT/patch.diff" 2>/tmp/sw/${P}_${N}.apply; then echo "PATCH DOES NOT APPLY on current HEAD"; cat /tmp/sw/${P}_${N}.apply; git -C /repo worktree remove --force "$WT"; exit 3; fi
( PYTHONPATH=$WT timeout 300 /venv/bin/python "$OUT/demo.py" >/tmp/sw/${P}_${N}.demo1 2>&1 ); D1=$?
SUITE="skipped"
if [ "${SKIP_SUITE:-0}" != "1" ]; then
  SUITE=$(PYTHONPATH=$WT /venv/bin/python -m pytest -q -p no:cacheprovider --timeout=900 -n ${SUITE_N:-8} 2>&1 | tail -1)
fi
RES=""
for C in $CHECKS; do
  cd /verif
  VERIF_REPO=$WT ./check $C --tier quick --workers ${CHECK_N:-8} >/tmp/sw/${P}_${N}.check_$C 2>&1; RC=$?
  NV=$(grep -c "^VIOLATION" /tmp/sw/${P}_${N}.check_$C)
  FIRST=$(grep -A1 "^VIOLATION" /tmp/sw/${P}_${N}.check_$C | sed -n 2p | cut -c1-300)
  RES="$RES{\"check\":\"$C\",\"exit\":$RC,\"violation_lines\":$NV,\"first\":$(/venv/bin/python -c 'import json,sys;print(json.dumps(sys.argv[1]))' "$FIRST")},"
done
# restore evidence written by the worktree runs
cd /verif && git checkout -- evidence 2>/dev/null
/venv/bin/python - "$P" "$N" "$SRC" "$D0" "$D1" "$SUITE" "[${RES%,}]" <<'PY'
import json,sys
P,N,SRC,D0,D1,SUITE,RES=sys.argv[1:8]
src=json.load(open(SRC)) if SRC and SRC!='-' else {}
import os
old=f"/verif/seeded/{P}_{N}/meta.json"
if SUITE=="skipped" and os.path.exists(old):
    try: SUITE=json.load(open(old))["confirmed"]["repo_suite_with_change"]+" (from the first confirmation run)"
    except Exception: pass
meta={"property":P,"name":N,"summary":src.get("summary"),"needs_to_manifest":src.get("needs_to_manifest"),
 "confirmed":{"demo_exit_without_change":int(D0),"demo_exit_with_change":int(D1),"repo_suite_with_change":SUITE,
              "checks_against_changed_tree":json.loads(RES)},
 "how":"tools/seedtest.sh: scratch worktree of /repo HEAD, git apply patch.diff, demo with PYTHONPATH=worktree, pytest -n 8, ./check with VERIF_REPO=worktree"}
if os.path.exists(old):
    try:
        o=json.load(open(old))
        if o.get("note"): meta["note"]=o["note"]
        prev=[r for r in o["confirmed"]["checks_against_changed_tree"] if r["exit"]!=1]
        if prev and not o.get("note") and any(r["exit"]==1 for r in meta["confirmed"]["checks_against_changed_tree"]):
            meta["first_run_missed_by"]=sorted({r["check"] for r in prev}|set(o.get("first_run_missed_by",[])))
        elif o.get("first_run_missed_by"): meta["first_run_missed_by"]=o["first_run_missed_by"]
    except Exception: pass
json.dump(meta,open(f"/verif/seeded/{P}_{N}/meta.json","w"),indent=1)
print(json.dumps(meta["confirmed"],indent=1))
PY
git -C /repo worktree remove --force "$WT"
