#!/bin/bash
cd "$(dirname "$(readlink -f "$0")")/.."
for id in "$@"; do
  s=$(date +%s)
  nice -n 10 ./check $id --tier thorough --workers ${WORKERS:-8} > /tmp/thorough_${id}.log 2>&1; rc=$?
  e=$(date +%s)
  echo "$id thorough exit=$rc wall=$((e-s))s viol_lines=$(grep -c '^VIOLATION' /tmp/thorough_${id}.log) :: $(tail -1 /tmp/thorough_${id}.log | cut -c1-200)" >> /tmp/thorough.summary
  cp evidence/$id.json /tmp/thorough_evidence_$id.json 2>/dev/null
  git checkout -- evidence/$id.json 2>/dev/null
done
