"""C09 / finding 2: pressure on a planar face whose boundary elements do not all have the same
orientation -> the contributions cancel, the resultant is not  pressure x area.

The direction of a pressure is taken from the node ordering of the boundary elements
(`_GroupElem.Get_normals_e_pg`: cross product of the tangents / z x tangent), never from the side
on which the body lies.  `Mesh.Symmetry` mirrors the coordinates and keeps the connectivity, so the
boundary elements of a mirrored part have the opposite orientation.  Modelling one half, mirroring
a copy and merging both (`Mesh.Merge`) is a plain use of the public API; on the merged part a planar
face that spans both halves receives +p n on one half and -p n on the other.
"""

import sys
import numpy as np

from EasyFEA import ElemType, Models, Simulations, Mesh
from EasyFEA.Geoms import Domain

L, H, D = 1.0, 1.0, 0.5
p = 3.0
th = 0.4
fail = False

print("2D: rectangle [0,L]x[0,H] + its mirror image through x = 0, merged; pressure on the top edge y = H")
for elemType in [ElemType.TRI3, ElemType.QUAD4, ElemType.TRI6]:
    half = Domain((0, 0), (L, H), H / 2).Mesh_2D([], elemType, isOrganised=True)
    mirrored = half.copy()
    mirrored.Symmetry((0, 0, 0), (1, 0, 0))
    mesh = Mesh.Merge([half, mirrored])
    assert abs(mesh.area - 2 * L * H) < 1e-12

    simu = Simulations.Elastic(mesh, Models.Elastic.Isotropic(2, 1.0, 0.3, planeStress=True, thickness=th))
    top = mesh.Nodes_Conditions(lambda x, y, z: y == H)

    simu.add_pressureLoad(top, p)
    F = simu.Bc_vector_Neumann().reshape(-1, 2).sum(0)

    # same traction entered as a surface load: the integration itself is right
    simu.Bc_Init()
    simu.add_surfLoad(top, [p], ["y"])
    Fs = simu.Bc_vector_Neumann().reshape(-1, 2).sum(0)

    expected = p * 2 * L * th
    print(f"  {elemType.name:5s} |resultant of the pressure| = {np.linalg.norm(F):.6f}   expected p*A = {expected:.6f}   (surfLoad: {np.linalg.norm(Fs):.6f})")
    if abs(np.linalg.norm(F) - expected) > 1e-6 * expected:
        fail = True

print("3D: box [0,L]x[0,H]x[0,D] + its mirror image through x = 0, merged; pressure on the top face z = D")
for elemType in [ElemType.TETRA4, ElemType.HEXA8, ElemType.PRISM6]:
    half = Domain((0, 0), (L, H), H / 2).Mesh_Extrude([], [0, 0, D], [2], elemType, isOrganised=True)
    mirrored = half.copy()
    mirrored.Symmetry((0, 0, 0), (1, 0, 0))
    mesh = Mesh.Merge([half, mirrored])
    assert abs(mesh.volume - 2 * L * H * D) < 1e-12

    simu = Simulations.Elastic(mesh, Models.Elastic.Isotropic(3, 1.0, 0.3))
    top = mesh.Nodes_Conditions(lambda x, y, z: z == D)
    simu.add_pressureLoad(top, p)
    F = simu.Bc_vector_Neumann().reshape(-1, 3).sum(0)
    expected = p * 2 * L * H
    print(f"  {elemType.name:6s} |resultant of the pressure| = {np.linalg.norm(F):.6f}   expected p*A = {expected:.6f}")
    if abs(np.linalg.norm(F) - expected) > 1e-6 * expected:
        fail = True

# for information (not counted): on a single gmsh box the sign convention already differs from face to face
mesh = Domain((0, 0), (L, H), H / 2).Mesh_Extrude([], [0, 0, D], [2], ElemType.HEXA8, isOrganised=True)
simu = Simulations.Elastic(mesh, Models.Elastic.Isotropic(3, 1.0, 0.3))
both = mesh.Nodes_Conditions(lambda x, y, z: (z == 0) | (z == D))
simu.add_pressureLoad(both, p)
F = simu.Bc_vector_Neumann().reshape(-1, 3).sum(0)
print(f"info: same pressure on the two opposite faces z = 0 and z = D of one box: resultant = {F}  (a pressure on opposite faces should cancel)")

if fail:
    print("DEFECT: the resultant of a pressure on a planar face is not pressure x area (contributions of opposite sign).")
    sys.exit(1)
print("ok")
sys.exit(0)
