"""C09 / finding 1: loads on CURVED boundary elements are integrated over the chord (facet), not over the curve.

A distributed load applied on a curved edge (2D) or a curved face (3D) meshed with
quadratic elements (SEG3 / TRI6 / QUAD8 ...) must sum to  integral of q over the loaded
curve / surface.  EasyFEA integrates it with a jacobian obtained after projecting every
boundary element on ONE constant frame per element (chord direction / facet plane), so
the out-of-frame part of the tangent vectors is dropped: the resultant is the one of the
inscribed polygon / polyhedron, whatever the element order.
"""

import sys
import numpy as np

from EasyFEA import ElemType, Models, Simulations
from EasyFEA.Geoms import Circle

R = 1.0
H = 1.5
TOL = 2e-3  # relative; the defect is ~2.5e-2, the geometric error of the quadratic mesh ~1e-4

fail = False


def fe_boundary_length(mesh, nodes_sel):
    """independent re-computation: exact length of the isoparametric SEG3 boundary curves"""
    grp = [g for g in mesh.Get_list_groupElem(1) if g.elemType == ElemType.SEG3][0]
    coord = mesh.coord
    gp, gw = np.polynomial.legendre.leggauss(12)
    sel = set(int(n) for n in nodes_sel)
    total = 0.0
    for conn in grp.connect:
        if not all(int(n) in sel for n in conn):
            continue
        P = coord[conn, :2]
        # find the mid node without relying on the library ordering: it is the node
        # closest to the middle of the two others
        best = None
        for m in range(3):
            a, b = [k for k in range(3) if k != m]
            d = np.linalg.norm(P[m] - (P[a] + P[b]) / 2)
            if best is None or d < best[0]:
                best = (d, a, m, b)
        _, a, m, b = best
        for xi, w in zip(gp, gw):
            dN = np.array([xi - 0.5, -2 * xi, xi + 0.5])  # d/dxi of quadratic Lagrange (-1, 0, 1)
            t = dN @ P[[a, m, b]]
            total += w * np.linalg.norm(t)
    return total


# ------------------------------------------------------------------ 2D: disk, line load on the rim
print("2D disk of radius 1, load on the rim")
for elemType in [ElemType.TRI6, ElemType.QUAD8, ElemType.TRI10]:
    circle = Circle((0, 0), 2 * R, R * 0.8)
    mesh = circle.Mesh_2D([], elemType)
    simu = Simulations.Elastic(mesh, Models.Elastic.Isotropic(2, 1.0, 0.3, planeStress=True, thickness=1.0))
    rim = mesh.Nodes_Conditions(lambda x, y, z: np.abs(np.sqrt(x**2 + y**2) - R) < 1e-8)

    # (a) uniform line load q = 1 along x  -> resultant = perimeter
    simu.add_lineLoad(rim, [1.0], ["x"])
    Fx = simu.Bc_vector_Neumann().reshape(-1, 2)[:, 0].sum()

    # (b) tangential load (-y, x) -> moment about the centre = int (x^2+y^2) ds = R^2 * perimeter
    simu.Bc_Init()
    simu.add_lineLoad(rim, [lambda x, y, z: -y, lambda x, y, z: x], ["x", "y"])
    f = simu.Bc_vector_Neumann().reshape(-1, 2)
    X = mesh.coord
    Mz = (X[:, 0] * f[:, 1] - X[:, 1] * f[:, 0]).sum()

    exact = 2 * np.pi * R
    if elemType in (ElemType.TRI6, ElemType.QUAD8):
        ref = fe_boundary_length(mesh, rim)  # length of the curved FE boundary itself
    else:
        ref = exact
    nSeg = sum(g.Ne for g in mesh.Get_list_groupElem(1))
    polygon = 2 * R * nSeg * np.sin(np.pi / nSeg)
    print(
        f"  {elemType.name:6s} resultant Fx = {Fx:.6f}   moment Mz = {Mz:.6f}   "
        f"reference (curved FE boundary) = {ref:.6f}   2*pi*R = {exact:.6f}   inscribed polygon = {polygon:.6f}"
    )
    # for information: the area of the same mesh does follow the curved geometry
    print(f"         mesh.area = {mesh.area:.6f}  (pi R^2 = {np.pi*R**2:.6f})")
    if abs(Fx - ref) / ref > TOL or abs(Mz - R**2 * ref) / ref > TOL:
        fail = True

# ------------------------------------------------------------------ 3D: cylinder, surface load on the lateral face
print("3D cylinder R = 1, H = 1.5, uniform surface load (1 along z) on the lateral face")
for elemType in [ElemType.TETRA10, ElemType.HEXA20, ElemType.PRISM15]:
    circle = Circle((0, 0), 2 * R, R * 0.8)
    mesh = circle.Mesh_Extrude([], [0, 0, H], [2], elemType)
    simu = Simulations.Elastic(mesh, Models.Elastic.Isotropic(3, 1.0, 0.3))
    lateral = mesh.Nodes_Conditions(lambda x, y, z: np.abs(np.sqrt(x**2 + y**2) - R) < 1e-8)
    simu.add_surfLoad(lateral, [1.0], ["z"])
    Fz = simu.Bc_vector_Neumann().reshape(-1, 3)[:, 2].sum()
    exact = 2 * np.pi * R * H
    print(f"  {elemType.name:8s} resultant Fz = {Fz:.6f}   lateral area 2*pi*R*H = {exact:.6f}   rel. dev. = {abs(Fz-exact)/exact:.2e}")
    if abs(Fz - exact) / exact > TOL:
        fail = True

if fail:
    print("DEFECT: the resultant of a load on a curved boundary is the one of the inscribed polygon / polyhedron.")
    sys.exit(1)
print("ok")
sys.exit(0)
