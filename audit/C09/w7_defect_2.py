"""Defect of the UNCHANGED library (C09): a mesh built from a coordinate array of INTEGER dtype
(np.array([[0, 0, 0], [8, 0, 0], ...]) written without decimal points - a natural way to type a
hand-made mesh, accepted without conversion nor warning by GroupElemFactory.Create / Mesh) gives
silently wrong loads on every boundary edge / face that is not parallel to a coordinate axis.

_GroupElem.__init__ keeps `coordinates[nodes]` with the caller's dtype. In Get_F_e_pg the
coordinates of an embedded element (boundary segment of a 2D mesh, face of a 3D mesh) are
projected on the frame of the element with

    rebased_coord_e = coord_e.copy()                     # int64
    rebased_coord_e[isOrth_e] = coord_e[isOrth_e] @ P_e  # float products written in an int array

so the projected coordinates are TRUNCATED to integers. For axis-aligned elements P_e holds
0 / +-1 only and nothing is lost; for an oblique element the Jacobian (hence the length / area and
every load integrated on it) is wrong. mesh.coord itself reports float64, the bulk area is right,
nothing warns.

Example: right triangle (0,0) (8,0) (0,6) meshed with 4 TRI3; its hypotenuse (length 10) is made
of two segments of length 5. A unit line load on the hypotenuse must sum to 10: with integer
coordinates the library returns 9 (the perimeter is reported as 23 instead of 24). The same mesh
with the same numbers stored as floats gives 10.

exit 1 when the defect is present, 0 otherwise.
"""

import sys
import numpy as np

from EasyFEA import Models, Simulations, ElemType
from EasyFEA.FEM import Mesh, GroupElemFactory


def build(dtype) -> Mesh:
    coords = np.array(
        [[0, 0, 0], [8, 0, 0], [0, 6, 0], [4, 0, 0], [4, 3, 0], [0, 3, 0]], dtype=dtype
    )
    tris = np.array([[0, 3, 5], [3, 1, 4], [3, 4, 5], [5, 4, 2]])
    segs = np.array([[0, 3], [3, 1], [1, 4], [4, 2], [2, 5], [5, 0]])
    return Mesh(
        {
            ElemType.SEG2: GroupElemFactory.Create(ElemType.SEG2, segs, coords),
            ElemType.TRI3: GroupElemFactory.Create(ElemType.TRI3, tris, coords),
        }
    )


results = {}
for dtype in (float, int):
    mesh = build(dtype)
    simu = Simulations.Elastic(mesh, Models.Elastic.Isotropic(2, thickness=1.0))
    hypotenuse = np.array([1, 4, 2])
    simu.add_lineLoad(hypotenuse, [1.0], ["x"])
    total = simu.Bc_vector_Neumann().reshape(-1, 2)[:, 0].sum()
    perimeter = sum(g.length for g in mesh.Get_list_groupElem(1))
    results[dtype.__name__] = total
    print(
        f"coordinates given as {dtype.__name__:5s}: mesh.coord.dtype = {mesh.coord.dtype}, area = {mesh.area:g}, "
        f"perimeter = {perimeter:g} (exact 24), unit line load on the hypotenuse sums to {total:g} (exact 10)"
    )

if abs(results["int"] - 10.0) > 1e-9:
    print("DEFECT PRESENT: integer-typed coordinates are truncated in the projection of embedded elements")
    sys.exit(1)
print("defect absent")
sys.exit(0)
