"""C09 / finding 3: a pressure on nodes that do not bound any boundary element does not
"contribute nothing", it crashes inside numpy.

add_lineLoad / add_surfLoad / add_volumeLoad given nodes that do not bound a complete
boundary element add nothing (the Neumann vector stays zero).  add_pressureLoad with the same
nodes raises  ValueError: need at least one array to concatenate  from Mesh.Get_normals.
"""

import sys
import numpy as np

from EasyFEA import ElemType, Models, Simulations
from EasyFEA.Geoms import Domain

L, H, D = 2.0, 1.0, 0.7
fail = False

cases = []
mesh2 = Domain((0, 0), (L, H), H / 2).Mesh_2D([], ElemType.QUAD4, isOrganised=True)
simu2 = Simulations.Elastic(mesh2, Models.Elastic.Isotropic(2, 1.0, 0.3, planeStress=True, thickness=0.5))
cases.append(("2D, one corner node of the edge", simu2, mesh2.Nodes_Point((L, H))))
# every second node of the right edge: no segment has both of its nodes selected
right = mesh2.Nodes_Conditions(lambda x, y, z: x == L)
right = right[np.argsort(mesh2.coord[right, 1])][::2]
cases.append(("2D, every second node of the right edge", simu2, right))

mesh3 = Domain((0, 0), (L, H), H / 2).Mesh_Extrude([], [0, 0, D], [2], ElemType.PRISM6, isOrganised=True)
simu3 = Simulations.Elastic(mesh3, Models.Elastic.Isotropic(3, 1.0, 0.3))
cases.append(("3D, the nodes of one edge of the box (no complete face)", simu3, mesh3.Nodes_Conditions(lambda x, y, z: (x == L) & (y == H))))

for name, simu, nodes in cases:
    dim = simu.dim
    # the sibling loads: nothing is added, as promised
    simu.Bc_Init()
    simu.add_surfLoad(nodes, [1.0], ["x"])
    simu.add_volumeLoad(nodes, [1.0], ["x"])
    n0 = np.abs(simu.Bc_vector_Neumann()).max()
    simu.Bc_Init()
    try:
        simu.add_pressureLoad(nodes, 2.0)
        n1 = np.abs(simu.Bc_vector_Neumann()).max()
        print(f"{name}: surf/volume load -> |F|max = {n0:g}; pressure -> |F|max = {n1:g}")
        if n1 != 0:
            fail = True
    except Exception as err:  # noqa
        print(f"{name}: surf/volume load -> |F|max = {n0:g}; pressure -> {type(err).__name__}: {err}")
        fail = True

if fail:
    print("DEFECT: a pressure on nodes that bound no boundary element raises instead of contributing nothing.")
    sys.exit(1)
print("ok")
sys.exit(0)
