"""Defect of the UNCHANGED library (C09): line / surface loads on CURVED second-order (or higher)
boundary elements are integrated on the chord (resp. on the plane of the corner nodes), not on
the curved element the mesh really has.

_GroupElem.Get_F_e_pg builds the Jacobian of an element embedded in a higher-dimensional space
(boundary segments of a 2D mesh, boundary faces of a 3D mesh) by first projecting the node
coordinates on a frame made from the corner nodes (_Get_sysCoord_e: i = p2 - p1, ...) and keeping
the first `dim` components. For a SEG3 whose mid node is off the chord (a circular hole or disc
meshed with TRI6 / QUAD8 / TRI10 ...) the offset of the mid node is orthogonal to i and is thrown
away: |dx/dxi| becomes chord/2, whatever the element order. The bulk elements of the same mesh use the
full isoparametric map (mesh.area converges in h^4), so the boundary integration is not even
consistent with the geometry of the mesh it belongs to.

Consequence for the property: a unit line load (times thickness 1) applied on the whole boundary of
a disc of radius R sums to the perimeter of the inscribed polygon through the corner nodes
(6.2429 for 16 edges) instead of the length of the loaded curve (6.28303 for the quadratic edges of
the mesh, 2 pi R = 6.28319 for the geometry): 0.64 % of the load is missing, and refining with
higher-order elements does not help (TRI10 gives the same number as TRI3). The same holds for
add_surfLoad on the lateral QUAD8 / TRI6 faces of a cylinder (projected area).

exit 1 when the defect is present, 0 otherwise.
"""

import sys
import numpy as np

from EasyFEA import Models, Simulations, ElemType
from EasyFEA.Geoms import Point, Circle

R = 1.0
circle = Circle(Point(0, 0), 2 * R, R / 2)

bad = []
for elemType in [ElemType.TRI3, ElemType.TRI6, ElemType.QUAD8, ElemType.TRI10]:
    mesh = circle.Mesh_2D([], elemType)
    simu = Simulations.Elastic(mesh, Models.Elastic.Isotropic(2, thickness=1.0))
    r = np.linalg.norm(mesh.coord[:, :2], axis=1)
    nodes = np.where(np.abs(r - R) < 1e-6 * R)[0]
    simu.add_lineLoad(nodes, [1.0], ["x"])
    total = simu.Bc_vector_Neumann().reshape(-1, 2)[:, 0].sum()

    # reference: length of the boundary elements of this very mesh, from their own nodes
    # (Lagrange interpolation through the nodes of each edge, integrated with 12 Gauss points;
    #  written here independently of the library)
    group = mesh.Get_list_groupElem(1)[0]
    elems = group.Get_Elements_Nodes(nodes, True)
    connect = group.connect[elems]
    nPe = connect.shape[1]
    # gmsh ordering of SEGn: the two ends first, then the inner nodes from end 1 to end 2
    xi_n = np.concatenate(([-1.0, 1.0], np.linspace(-1, 1, nPe)[1:-1]))
    xg, wg = np.polynomial.legendre.leggauss(12)
    length = 0.0
    for con in connect:
        X = mesh.coord[con]
        # derivative of the Lagrange interpolant through (xi_n, X)
        poly = [np.polyfit(xi_n, X[:, d], nPe - 1) for d in range(3)]
        dX = np.array([np.polyval(np.polyder(p), xg) for p in poly])  # (3, nPg)
        length += (np.linalg.norm(dX, axis=0) * wg).sum()

    err = abs(total - length) / length
    print(
        f"{elemType.name:6s} {elems.size:3d} edges: sum of the nodal forces = {total:.6f}, "
        f"length of the loaded edges = {length:.6f} (2 pi R = {2*np.pi*R:.6f}), rel. err = {err:.2e}"
    )
    if elemType != ElemType.TRI3 and err > 1e-6:
        bad.append(elemType.name)
    if elemType == ElemType.TRI3:
        assert err < 1e-12  # straight edges: both agree

if bad:
    print("DEFECT PRESENT: line loads on curved edges are integrated on the chord for", bad)
    sys.exit(1)
print("defect absent")
sys.exit(0)
