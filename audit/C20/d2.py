"""C20 / finding 2 -- Mesh.Merge welds coincident nodes that belong to the SAME input mesh.

`Mesh.Merge(list_mesh, mergePoints=True)` is documented to "merge coincident nodes across meshes",
and `mapping[i][j]` is "the index of node j from list_mesh[i] in the merged mesh".  The implementation
stacks all coordinates and runs one KD-tree pair search over the whole stack, so two nodes of one and
the same mesh that share a position are welded as well.  Such nodes are legitimate and common:
the two lips of an open crack (Mesher.Mesh_2D(..., cracks=[Line(..., isOpen=True)])), the junction
nodes of the members of a Mesh_1D / Mesh_Beams frame (linked by connections, not by shared nodes).
Merging a cracked mesh with a mesh that lies far away therefore silently closes the crack:
mapping[0] is not injective, the merged mesh has fewer nodes than the two disjoint meshes together,
and the merged structure is stiffer.

Reference values are computed independently with numpy / scipy (KD-tree restricted to pairs of
different meshes; count of free edges; strain energy of the unmerged mesh).
exit 1 = defect present, exit 0 = not present.
"""

import sys
import numpy as np
from scipy.spatial import cKDTree

from EasyFEA import Mesher, ElemType, Mesh, Models, Simulations
from EasyFEA.Geoms import Domain, Point, Line

L = 10.0
MS = 2.5


def Cracked(x0: float) -> Mesh:
    """Square plate [x0, x0+L] x [0, L] with an open edge crack at mid height."""
    contour = Domain(Point(x0, 0), Point(x0 + L, L), MS)
    crack = Line(Point(x0, L / 2, isOpen=True), Point(x0 + L / 2, L / 2), MS, isOpen=True)
    return Mesher().Mesh_2D(contour, [], ElemType.TRI3, cracks=[crack])


def Free_edges(mesh: Mesh) -> int:
    """Number of element edges used by exactly one TRI3 element (numpy only)."""
    c = mesh.dict_groupElem[ElemType.TRI3].connect
    edges = np.sort(np.vstack([c[:, [0, 1]], c[:, [1, 2]], c[:, [2, 0]]]), axis=1)
    _, counts = np.unique(edges, axis=0, return_counts=True)
    return int(np.sum(counts == 1))


def Energy(mesh: Mesh) -> float:
    """Strain energy of the plate(s) pulled open: uy = 0 on y = 0, uy = 0.1 on y = L, ux = 0 on both."""
    mat = Models.Elastic.Isotropic(2, E=210000.0, v=0.3, planeStress=True, thickness=1.0)
    simu = Simulations.Elastic(mesh, mat)
    low = mesh.Nodes_Conditions(lambda x, y, z: y == 0)
    up = mesh.Nodes_Conditions(lambda x, y, z: y == L)
    simu.add_dirichlet(low, [0, 0], ["x", "y"])
    simu.add_dirichlet(up, [0, 0.1], ["x", "y"])
    u = simu.Solve()
    K = simu.Get_K_C_M_F()[0]
    return float(0.5 * u @ (K @ u))


if __name__ == "__main__":
    defect = False

    m1 = Cracked(0.0)
    m2 = Cracked(30.0)  # same plate, 20 length units away: no node of m1 is near a node of m2

    # independent reference: only pairs made of one node of m1 and one node of m2 may be merged
    pairs = cKDTree(np.vstack([m1.coord, m2.coord])).query_pairs(1e-12, output_type="ndarray")
    cross = pairs[(pairs[:, 0] < m1.Nn) != (pairs[:, 1] < m1.Nn)] if len(pairs) else pairs
    inside = len(pairs) - len(cross)
    print(f"m1: Nn={m1.Nn} Ne={m1.Ne}; m2: Nn={m2.Nn} Ne={m2.Ne}")
    print(f"coincident pairs across the two meshes: {len(cross)}; inside one mesh (crack lips): {inside}")
    expected_Nn = m1.Nn + m2.Nn - len(cross)

    merged, mapping = Mesh.Merge([m1, m2], return_mapping=True)
    print(f"merged: Nn={merged.Nn} (expected {expected_Nn}), Ne={merged.Ne} (expected {m1.Ne + m2.Ne})")
    for i, (m, mp) in enumerate(zip([m1, m2], mapping)):
        injective = np.unique(mp).size == m.Nn
        print(f"mapping[{i}] injective on the nodes of list_mesh[{i}]: {injective}")
        defect |= not injective
    defect |= merged.Nn != expected_Nn

    fe = Free_edges(m1) + Free_edges(m2)
    fe_merged = Free_edges(merged)
    print(f"free edges: {fe} in the two meshes, {fe_merged} in the merged mesh")
    defect |= fe != fe_merged

    E1, E2, Em = Energy(m1), Energy(m2), Energy(merged)
    print(f"strain energy, same loading: {E1:.4f} + {E2:.4f} = {E1 + E2:.4f} unmerged, {Em:.4f} merged"
          f" (+{100 * (Em / (E1 + E2) - 1):.1f} %)")
    defect |= abs(Em - (E1 + E2)) > 1e-8 * (E1 + E2)

    print("DEFECT" if defect else "no defect")
    sys.exit(1 if defect else 0)
