"""C20 / finding 1 -- add_pressureLoad on a mesh part is not row-complete.

A uniform pressure is applied on a circular hole.  The right-hand side built on ONE part
(owned + ghost elements, exactly what a rank holds under MPI) must equal the global right-hand
side on the rows of the dofs the part owns.  It does not: `_Simu.__Bc_pressureload` first averages
the element normals at the NODES (`Mesh.Get_normals`) over the boundary elements the part holds.
The ghost layer is one element deep (every element touching an owned node), but the nodal normal of
a GHOST node needs the boundary elements around that ghost node too, i.e. a second layer that the
part does not have.  On a curved (or kinked) boundary the owned rows of b are therefore wrong, and
the owned-row resultant summed over the parts is not the global resultant (closed form for a uniform
pressure on a closed contour: 0).

Second symptom of the same entry point: a part that sees nodes of the loaded boundary but no complete
boundary element there (routine for a rank) makes add_pressureLoad raise
"ValueError: need at least one array to concatenate" (Mesh.Get_normals), where add_surfLoad /
add_lineLoad simply add nothing.

The parts are built in one process with Mesher._Mesh_Get_Meshes (the library's own single-process
access to the partitioner, used by tests/FEM/partition_test.py); nothing else is private.
exit 1 = defect present, exit 0 = not present.
"""

import sys
import numpy as np

from EasyFEA import Mesher, ElemType, Models, Simulations
from EasyFEA.Geoms import Domain, Point, Circle

MESHSIZE = 1.5
P = 7.0  # pressure


def Get_parts(Nproc: int):
    """Same steps as Mesher.Mesh_2D(domain, [hole], TRI3), ending with the partitioner."""
    domain = Domain(Point(0, 0), Point(10, 10), MESHSIZE)
    hole = Circle(Point(5, 5), 6, MESHSIZE, isFilled=False)
    mesher = Mesher()
    mesher._Init_gmsh("occ")
    mesher._Surfaces(domain, [hole])
    mesher._Set_PhysicalGroups()
    mesher._Mesh_Generate(2, ElemType.TRI3)
    return mesher._Mesh_Get_Meshes(Nproc), hole


def Get_b(mesh, hole):
    """Neumann vector of a uniform pressure on the hole, built on `mesh` alone."""
    mat = Models.Elastic.Isotropic(2, E=210000, v=0.3, planeStress=True, thickness=1.0)
    simu = Simulations.Elastic(mesh, mat)
    nodes = mesh.Nodes_Circle(hole)  # the nodes of the hole this mesh holds
    simu.add_pressureLoad(nodes, P)
    return simu, simu.Bc_vector_Neumann()


if __name__ == "__main__":
    defect = False

    (glob,), hole = Get_parts(1)
    simuG, bG = Get_b(glob, hole)
    resG = bG.reshape(-1, 2).sum(0)
    print(f"global mesh: Nn={glob.Nn} Ne={glob.Ne}  max|b|={abs(bG).max():.6f}")
    print(f"global resultant (closed form 0): {resG}")

    for Nproc in [2, 3, 4]:
        parts, hole = Get_parts(Nproc)
        resultant = np.zeros(2)
        worst = 0.0
        crashed = []
        for rank, part in enumerate(parts):
            # the partition itself is fine: same numbering / coordinates, one-ring ghost layer
            assert part.Nn == glob.Nn
            owned = part._Get_mpi_owned_nodes()
            if owned.size == 0:
                continue
            try:
                simuP, bP = Get_b(part, hole)
            except ValueError as err:
                crashed.append((rank, str(err)))
                continue
            dofs = simuP.Bc_dofs_nodes(owned, ["x", "y"])
            diff = abs(bP[dofs] - bG[dofs]).max()
            worst = max(worst, diff)
            resultant += bP[dofs].reshape(-1, 2).sum(0)
        print(
            f"Nproc={Nproc}: max |b_part - b_global| on owned rows = {worst:.6f} "
            f"({100 * worst / abs(bG).max():.2f} % of max|b|), "
            f"sum over parts of owned-row resultants = {resultant} (global {resG})"
        )
        for rank, err in crashed:
            print(f"   rank {rank}: add_pressureLoad raised ValueError: {err}")
        if worst > 1e-8 * abs(bG).max() or np.abs(resultant - resG).max() > 1e-8 * abs(bG).max():
            defect = True

    # second symptom, deterministic: give a part nodes of the boundary that bound no boundary element
    # of that part (here: a single node), as a rank touching the loaded surface at one node does.
    parts, hole = Get_parts(3)
    part = parts[0]
    mat = Models.Elastic.Isotropic(2, E=210000, v=0.3, planeStress=True, thickness=1.0)
    simu = Simulations.Elastic(part, mat)
    node = part.Nodes_Circle(hole)[:1]
    simu.add_surfLoad(node, [P], ["x"])  # contributes nothing, as it should
    try:
        simu.add_pressureLoad(node, P)
        print("single boundary node: add_pressureLoad contributes nothing (ok)")
    except ValueError as err:
        print(f"single boundary node: add_surfLoad is a no-op but add_pressureLoad raised ValueError: {err}")
        defect = True

    print("DEFECT" if defect else "no defect")
    sys.exit(1 if defect else 0)
