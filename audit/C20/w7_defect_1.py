"""Possible defect of the UNCHANGED library (C20, 'merging meshes with a node mapping is the inverse
bookkeeping' of a partition).

Mesh.Merge(parts) of the parts returned by Mesher._Mesh_Get_Meshes(Nproc) does not give the global
mesh back when no node of the mesh lies at the origin: Merge reads `mesh.coord` of every part, which
is indexed by GLOBAL node id and leaves the rows of the nodes the part does not hold at (0, 0, 0).
Those unfilled rows are taken as real points, all coincide, and are merged into ONE phantom node at
the origin: the merged mesh has Nn_global + 1 nodes, node 0 is an orphan at (0, 0, 0) that belongs to
no element, every genuine node is shifted by one, and mapping[r][n] of a node n the part r does not
hold points to the phantom node instead of being flagged. (When the mesh does have a node at the
origin, the nodes a part does not hold are silently mapped onto that genuine node instead.)
The elements themselves are recovered correctly (same count, same coordinates).

exit 1 when the phantom node is present, 0 otherwise.
"""

import sys
import numpy as np

from EasyFEA import Mesher, ElemType, Mesh
from EasyFEA.Geoms import Domain, Point


def Get_partitions(Nproc: int):
    mesher = Mesher()
    domain = Domain(Point(1, 1), Point(10, 10), 2.0)  # no node at the origin
    mesher._Init_gmsh("occ")
    mesher._Surfaces(domain, [])
    mesher._Set_PhysicalGroups()
    mesher._Mesh_Generate(2, ElemType.TRI3)
    return mesher._Mesh_Get_Meshes(Nproc)


glob = Get_partitions(1)[0]
bad = False
for Nproc in [2, 4]:
    parts = Get_partitions(Nproc)
    merged, mapping = Mesh.Merge(parts, return_mapping=True)
    # the genuine nodes are placed correctly ...
    for part, map_r in zip(parts, mapping):
        nodes = part.nodes
        assert np.allclose(merged.coord[map_r[nodes]], glob.coord[nodes])
    assert merged.Ne == glob.Ne
    # ... but the merged mesh has one node too many
    if merged.Nn != glob.Nn or len(merged.orphanNodes) != len(glob.orphanNodes):
        bad = True
        print(
            f"Nproc={Nproc}: Merge(parts) has Nn={merged.Nn} (global mesh {glob.Nn}), "
            f"orphan nodes {merged.orphanNodes} at {merged.coord[merged.orphanNodes].tolist()}"
        )

sys.exit(1 if bad else 0)
