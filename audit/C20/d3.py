"""C20 / finding 3 -- a surface mesh of a solid model cannot be split at all.

`Mesher.Mesh_Import_part(file, dim=2, ...)` meshes the faces of a CAD solid (and
`Mesher.Mesh_Import_mesh` reads such a mesh from a .msh file): the gmsh model is 3D, the mesh is made
of 2D elements, and EasyFEA handles it in serial (mesh.dim == 2, mesh.inDim == 3).  Splitting that
mesh in Nproc >= 2 parts -- what every MPI run does in `_Mesh_Get_Mesh`, and what `_Mesh_Get_Meshes`
does in one process -- raises "ValueError: need at least one array to concatenate".
`Mesher.__Get_dict_groupElems` counts the elements that bound the legal part count with

    meshDim = gmsh.model.getDimension()                                   # 3: dimension of the MODEL
    Nelems = np.concatenate(gmsh.model.mesh.getElements(meshDim)[1]).size  # no 3D element -> []

i.e. with the dimension of the geometric model instead of the dimension of the mesh.  Nothing else is
wrong: with the mesh dimension there, the very same mesh is split into a true partition.

The script builds the CAD file of a box with gmsh (a dependency of EasyFEA), meshes its faces as
Mesh_Import_part(dim=2) does, and asks for 1, 2, 3, 5 parts.  For every split obtained it checks the
property (owners of elements and nodes, one-ring ghost layer, numbering and coordinates).
exit 1 = defect present (the split raises, or is not a partition), exit 0 = not present.
"""

import os
import sys
import tempfile
import numpy as np
import gmsh

from EasyFEA import Mesher, ElemType

MESHSIZE = 2.0


def Make_stp(folder: str) -> str:
    path = os.path.join(folder, "box.stp")
    gmsh.initialize()
    gmsh.option.setNumber("General.Verbosity", 0)
    gmsh.model.occ.addBox(0, 0, 0, 8, 6, 4)
    gmsh.model.occ.synchronize()
    gmsh.write(path)
    gmsh.finalize()
    return path


def Get_parts(stp: str, dim: int, elemType: ElemType, Nproc: int):
    """Same steps as Mesher.Mesh_Import_part(stp, dim, MESHSIZE, elemType), ending with the partitioner."""
    mesher = Mesher()
    mesher._Init_gmsh()
    mesher._factory.importShapes(stp)
    mesher.Set_meshSize(MESHSIZE)
    mesher._Set_PhysicalGroups(setPoints=False, setLines=True, setSurfaces=True, setVolumes=False)
    gmsh.option.setNumber("Mesh.MeshSizeMin", MESHSIZE)
    gmsh.option.setNumber("Mesh.MeshSizeMax", MESHSIZE)
    mesher._Mesh_Generate(dim, elemType)
    return mesher._Mesh_Get_Meshes(Nproc)


def Is_partition(parts, glob) -> bool:
    ok = True
    groupG = glob.groupElem
    owned_e = np.concatenate([p.groupElem._Get_partitioned_data()[1] for p in parts])
    owned_n = np.concatenate([p._Get_mpi_owned_nodes() for p in parts])
    ok &= np.array_equal(np.sort(owned_e), np.arange(groupG.Ne))
    ok &= np.array_equal(np.sort(owned_n), glob.nodes)
    for p in parts:
        group = p.groupElem
        _, elements, ghosts, nodes, _ = group._Get_partitioned_data()
        touching = np.where(np.isin(groupG.connect, nodes).any(axis=1))[0]
        ok &= np.array_equal(np.union1d(elements, touching), np.union1d(elements, ghosts))
        ok &= np.array_equal(group.connect, groupG.connect[group._globalElements])
        ok &= p.Nn == glob.Nn and np.array_equal(group.coord, glob.coord[group.nodes])
    return bool(ok)


if __name__ == "__main__":
    defect = False
    with tempfile.TemporaryDirectory() as folder:
        stp = Make_stp(folder)

        # public entry point, serial: the surface mesh of the solid is a legal EasyFEA mesh
        mesh = Mesher().Mesh_Import_part(stp, 2, MESHSIZE, ElemType.TRI3)
        print(f"Mesh_Import_part(dim=2): dim={mesh.dim} inDim={mesh.inDim} Ne={mesh.Ne} Nn={mesh.Nn} "
              f"area={mesh.area:.3f} (closed form {2 * (8 * 6 + 8 * 4 + 6 * 4)})")

        for dim, elemType in [(3, ElemType.TETRA4), (2, ElemType.TRI3)]:
            (glob,) = Get_parts(stp, dim, elemType, 1)
            for Nproc in [2, 3, 5]:
                try:
                    parts = Get_parts(stp, dim, elemType, Nproc)
                except Exception as err:
                    print(f"{elemType.name}: Nproc={Nproc} of {glob.Ne} elements -> raised "
                          f"{type(err).__name__}: {err}")
                    defect = True
                    continue
                good = Is_partition(parts, glob)
                print(f"{elemType.name}: Nproc={Nproc} of {glob.Ne} elements -> "
                      f"{[p.Ne for p in parts]} elements per part, true partition: {good}")
                defect |= not good

    print("DEFECT" if defect else "no defect")
    sys.exit(1 if defect else 0)
