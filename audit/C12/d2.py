"""C12 / d2 -- the `where=` operand of a ufunc is not rank-aligned with the other field operands.

    np.divide(sig, nrm, out=zeros, where=nrm > 0)        sig: vector field (Ne, nPg, d)
                                                         nrm: scalar field (Ne, nPg), zero somewhere
FeArray.__array_ufunc__ pads `nrm` to (Ne, nPg, 1) (rank rule), but the mask `nrm > 0` -- the very
same scalar field -- is handed to numpy as a bare (Ne, nPg) array and right-aligned against
(Ne, nPg, d).  Ordinary mesh: ValueError.  nPg == d and Ne in (1, nPg): the mask is silently read as
mask[p, i] / mask[0, i] instead of mask[e, p]: protected points are divided by zero, others skipped.
exit 1 when the defect manifests, 0 otherwise.
"""
import sys
import numpy as np
from EasyFEA.FEM._linalg import FeArray


def scenario(Ne, nPg, d, seed=0):
    rng = np.random.default_rng(seed)
    sig_np = rng.random((Ne, nPg, d)) + 1.0
    nrm_np = rng.random((Ne, nPg))
    nrm_np[nrm_np < 0.4] = 0.0  # some Gauss points where the division must be skipped
    if not (nrm_np == 0).any():
        nrm_np.flat[0] = 0.0
    sig, nrm = FeArray.asfearray(sig_np), FeArray.asfearray(nrm_np)

    # reference: the same thing, one element and one Gauss point at a time
    ref = np.zeros((Ne, nPg, d))
    for e in range(Ne):
        for p in range(nPg):
            if nrm_np[e, p] > 0:
                ref[e, p] = sig_np[e, p] / nrm_np[e, p]

    # control: without `where` the scalar field is aligned as the rank rule says
    with np.errstate(all="ignore"):
        plain_div = sig / nrm
    with np.errstate(all="ignore"):
        expect = sig_np / nrm_np[..., None]
    ok_control = np.allclose(
        np.asarray(plain_div)[nrm_np > 0], expect[nrm_np > 0]
    )

    try:
        with np.errstate(all="ignore"):
            got = np.divide(sig, nrm, out=FeArray.zeros(Ne, nPg, d), where=nrm > 0)
    except Exception as ex:  # noqa: BLE001
        print(f"(Ne, nPg, d) = ({Ne}, {nPg}, {d}): control sig / nrm ok = {ok_control};"
              f" with where=nrm > 0 -> {type(ex).__name__}: {ex}")
        return "raises"
    got = np.asarray(got)
    nbad = int((~np.isclose(got, ref)).sum())
    print(f"(Ne, nPg, d) = ({Ne}, {nPg}, {d}): control sig / nrm ok = {ok_control};"
          f" with where=nrm > 0 -> {nbad}/{got.size} wrong entries, non-finite entries: {int((~np.isfinite(got)).sum())}")
    return "wrong" if nbad else "ok"


if __name__ == "__main__":
    results = [
        scenario(4, 2, 3),  # ordinary mesh
        scenario(1, 3, 3),  # one element, 3 Gauss points, 3 components (e.g. one TRI6, 2D strain vector)
        scenario(3, 3, 3),  # Ne == nPg == d
        scenario(6, 6, 6),  # 6 elements, 6 points, Kelvin 6-vectors
    ]
    if any(r != "ok" for r in results):
        print("DEFECT: a scalar-field mask passed as where= is not padded to the widest rank like the "
              "other field operands:", results)
        sys.exit(1)
    print("no defect")
    sys.exit(0)
