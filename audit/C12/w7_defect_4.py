"""C12 defect (unchanged tree): tensors of rank 3 cannot be contracted, and several ndarray methods
hand back a 'FeArray' that has lost the (Ne, nPg) axes.

(a) The property quantifies over tensor ranks 0-4, and elementwise arithmetic accepts rank 3, but
    FeArray._dot_subscript / _ddot_subscript only know ranks {0, 1, 2, 4}: t3.dot(v), t3 @ v,
    v @ t3, t3.ddot(m) raise KeyError: 3 (not even a ValueError/TypeError saying so).
(b) x.flatten(), x.squeeze() on a (1, 1, n) constant, x.swapaxes(0, 1), x.transpose() are not
    wrapped (only ravel / reshape are): they return FeArray objects of shape (Ne*nPg*n,), (n,),
    (nPg, Ne, n), (n, nPg, Ne), i.e. objects whose leading axes are not (Ne, nPg) but which still
    take part in the rank rule as fields (np.ravel(x) and x.ravel() correctly return ndarray).
exit 1 when any of these is present.
"""
import sys
import numpy as np
from EasyFEA.FEM._linalg import FeArray

rng = np.random.default_rng(0)
bad = []
t3 = FeArray.asfearray(rng.random((5, 4, 3, 3, 3)))
v = FeArray.asfearray(rng.random((5, 4, 3)))
try:
    got = t3 @ v
    if not np.allclose(np.asarray(got), np.einsum("epijk,epk->epij", np.asarray(t3), np.asarray(v))):
        bad.append("(a) t3 @ v: wrong values")
except Exception as err:  # noqa: BLE001
    bad.append(f"(a) rank-3 field @ vector field raised {type(err).__name__}: {err}")

for name, res in (
    ("x.flatten()", v.flatten()),
    ("const.squeeze()", FeArray.asfearray(np.ones(3), broadcastFeArrays=True).squeeze()),
    ("x.swapaxes(0, 1)", v.swapaxes(0, 1)),
    ("x.transpose()", v.transpose()),
):
    if isinstance(res, FeArray) and res.shape[:2] != v.shape[:2]:
        bad.append(f"(b) {name} is a FeArray of shape {res.shape}")

if bad:
    print("defect:", *bad, sep="\n  ")
    sys.exit(1)
sys.exit(0)
