"""C12 defect (unchanged tree): TensorProd refuses a plain array (a constant tensor) next to a field.

TensorProd computes `useFeArray = isinstance(A, FeArray) or isinstance(B, FeArray)` and then reads
`A._ndim` and `B._ndim` whenever useFeArray is true -- also on the operand that is a plain ndarray,
which has no `_ndim`: AttributeError. The einsum underneath ("...ij,...kl->...ijkl") would handle
the constant operand correctly. Expected (plain arrays act as constant tensors):
TensorProd(I, M)[e, p] = I (x) M[e, p].
exit 1 when the defect is present.
"""
import sys
import numpy as np
from EasyFEA.FEM._linalg import FeArray, TensorProd

rng = np.random.default_rng(0)
M = FeArray.asfearray(rng.random((5, 4, 3, 3)))
v = FeArray.asfearray(rng.random((5, 4, 3)))
bad = []
for name, call, ref in (
    ("TensorProd(eye, M)", lambda: TensorProd(np.eye(3), M), lambda: np.einsum("ij,epkl->epijkl", np.eye(3), np.asarray(M))),
    ("TensorProd(M, eye)", lambda: TensorProd(M, np.eye(3)), lambda: np.einsum("epij,kl->epijkl", np.asarray(M), np.eye(3))),
    ("TensorProd(v, n)", lambda: TensorProd(v, np.array([1.0, 2.0, 3.0])), lambda: np.einsum("epi,j->epij", np.asarray(v), np.array([1.0, 2.0, 3.0]))),
):
    try:
        got = call()
        if not np.allclose(np.asarray(got), ref()):
            bad.append(f"{name}: wrong values")
    except Exception as err:  # noqa: BLE001
        bad.append(f"{name} raised {type(err).__name__}: {err}")
if bad:
    print("defect:", *bad, sep="\n  ")
    sys.exit(1)
sys.exit(0)
