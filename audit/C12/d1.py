"""C12 / d1 -- the FeArray type of a dispatched numpy function is read from a shape coincidence.

np.einsum / np.tensordot / np.linalg.norm(axis=0) / np.trace / np.nanargmax ... that CONSUME the
(Ne, nPg) axes must return a plain array (a constant tensor).  FeArray.__array_function__ decides
with `res.shape[:2] == (Ne, nPg)` (FeArray.__wrap), so when Ne == nPg == dim the constant comes back
typed as a FeArray, i.e. as a *scalar field*, and the next arithmetic operation is silently wrong.

Scenario: fluctuation of a matrix field about its weighted mesh average
    Mbar = sum_ep w[e,p] M[e,p] / sum_ep w[e,p]          (a constant (dim, dim) tensor)
    fluct[e,p] = M[e,p] - Mbar
exit 1 when the defect manifests, 0 otherwise.
"""
import sys
import numpy as np
from EasyFEA.FEM._linalg import FeArray


def scenario(Ne, nPg, dim, seed=0):
    rng = np.random.default_rng(seed)
    M_np = rng.random((Ne, nPg, dim, dim))
    w_np = rng.random((Ne, nPg)) + 0.5
    M, w = FeArray.asfearray(M_np), FeArray.asfearray(w_np)

    # --- library -------------------------------------------------------------------------
    Mbar = np.einsum("ep,epij->ij", w, M) / w.sum()  # the (e, p) axes are summed away
    fluct = M - Mbar

    # --- independent reference: explicit loops on plain arrays ---------------------------
    Mbar_ref = np.zeros((dim, dim))
    for e in range(Ne):
        for p in range(nPg):
            Mbar_ref += w_np[e, p] * M_np[e, p]
    Mbar_ref /= w_np.sum()
    fluct_ref = np.zeros_like(M_np)
    for e in range(Ne):
        for p in range(nPg):
            fluct_ref[e, p] = M_np[e, p] - Mbar_ref

    typed_as_field = isinstance(Mbar, FeArray)
    same_shape = np.shape(fluct) == fluct_ref.shape
    err = np.abs(np.asarray(fluct) - fluct_ref).max() if same_shape else np.inf
    print(
        f"(Ne, nPg, dim) = ({Ne}, {nPg}, {dim}):  einsum('ep,epij->ij') -> {type(Mbar).__name__}{np.shape(Mbar)}"
        f"  | M - Mbar: shape {np.shape(fluct)}, max abs error vs loops = {err:.3e}"
    )
    return typed_as_field, err


def other_consumers(Ne, nPg, dim):
    """Same root cause, other dispatched functions: report which ones come back as a FeArray
    although the element / Gauss-point axes were consumed."""
    rng = np.random.default_rng(1)
    M = FeArray.asfearray(rng.random((Ne, nPg, dim, dim)))
    v = FeArray.asfearray(rng.random((Ne, nPg, dim)))
    calls = {
        "np.tensordot(M, M, axes=([0,1],[0,1]))": lambda: np.tensordot(M, M, axes=([0, 1], [0, 1])),
        "np.linalg.norm(v, axis=0)": lambda: np.linalg.norm(v, axis=0),
        "np.trace(M)  (axis1=0, axis2=1)": lambda: np.trace(M),
        "np.nanargmax(v, axis=0)": lambda: np.nanargmax(v, axis=0),
        "np.einsum('epi->pi', v)": lambda: np.einsum("epi->pi", v),
        # these two are handled by the _REDUCERS list and are correct:
        "np.sum(v, axis=0)  [control]": lambda: np.sum(v, axis=0),
        "v.sum(axis=0)  [control]": lambda: v.sum(axis=0),
    }
    wrong = []
    for name, call in calls.items():
        res = call()
        if isinstance(res, FeArray):
            wrong.append(name)
        print(f"    {name:45s} -> {type(res).__name__}{np.shape(res)}")
    return wrong


if __name__ == "__main__":
    bad = False
    # no coincidence: everything is right
    typed, err = scenario(4, 2, 3)
    bad |= typed or err > 1e-12
    # Ne == nPg == dim: the constant tensor is re-read as a scalar field
    for n in (3, 2):
        typed, err = scenario(n, n, n)
        bad |= typed or err > 1e-12
    print("other functions that consume the (Ne, nPg) axes, with Ne == nPg == dim == 3:")
    wrong = other_consumers(3, 3, 3)
    print("same calls without the coincidence (Ne, nPg, dim) = (4, 2, 3):")
    wrong_nc = other_consumers(4, 2, 3)
    bad |= bool(wrong) or bool(wrong_nc)
    if bad:
        print("DEFECT: a result whose (Ne, nPg) axes were consumed is typed FeArray because its shape "
              "coincides with (Ne, nPg); the following arithmetic treats the constant tensor as a scalar field.")
        sys.exit(1)
    print("no defect")
    sys.exit(0)
