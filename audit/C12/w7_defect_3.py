"""C12 defect (unchanged tree): for dispatched numpy functions outside the _REDUCERS table the type
of the result is read from a SHAPE COINCIDENCE, and lower-rank field operands are not aligned.

(a) FeArray.__array_function__ wraps a result as FeArray when result.shape[:2] == (Ne, nPg). Only
    the functions listed in _REDUCERS have their `axis` inspected. np.linalg.norm(x, axis=1),
    np.trace(m, axis1=1, axis2=2), np.take(x, 0, axis=1) ... consume the Gauss-point axis, so the
    result is not a field; it is nevertheless returned as a FeArray exactly when nPg == dim
    (TRI6 / TETRA4-with-3-points in 3 components...), and as a plain array otherwise. The same
    expression therefore changes meaning with the element type (a (Ne, dim) 'scalar field' is then
    re-aligned by the rank rule in the next product).
(b) functions returning a tuple (np.linalg.eigh, np.linalg.svd, np.linalg.slogdet, np.split) are
    not wrapped at all: eigenvalues / eigenvectors of a matrix field keep the (Ne, nPg) axes but
    come back as plain arrays, i.e. as 'constant tensors of rank 3 / 4' for the next operation.
(c) np.where(cond, x, y), np.clip(x, lo, hi) and the `where=` mask of a ufunc are broadcast the
    plain numpy way: a scalar-field condition against a vector field raises, and with
    Ne == nPg == dim it silently pairs cond[p, i] with x[e, p, i] instead of cond[e, p].
exit 1 when any of these is present.
"""
import sys
import numpy as np
from EasyFEA.FEM._linalg import FeArray

rng = np.random.default_rng(0)
bad = []

# (a) the type must not depend on nPg == dim
types = {}
for nPg in (3, 4):
    x = FeArray.asfearray(rng.random((5, nPg, 3)))
    types[nPg] = isinstance(np.linalg.norm(x, axis=1), FeArray)
if types[3] != types[4] or types[3]:
    bad.append(f"(a) np.linalg.norm(x, axis=1) is a FeArray: nPg=3 -> {types[3]}, nPg=4 -> {types[4]} (the Gauss axis was consumed)")

# (b) eigen-decomposition of a symmetric matrix field
m = FeArray.asfearray(rng.random((5, 4, 3, 3)))
w, v = np.linalg.eigh(m + m.T)
if not (isinstance(w, FeArray) and isinstance(v, FeArray)):
    bad.append(f"(b) np.linalg.eigh(field) returns {type(w).__name__}, {type(v).__name__} although the (Ne, nPg) axes are kept")

# (c) every dimension collides: Ne == nPg == dim == 3
s = FeArray.asfearray(rng.random((3, 3)))
x = FeArray.asfearray(rng.random((3, 3, 3)))
ref = np.where(np.asarray(s)[:, :, None] > 0.5, np.asarray(x), 0.0)  # cond[e, p] at every (e, p)
try:
    got = np.asarray(np.where(s > 0.5, x, 0.0))
    if got.shape != ref.shape or not np.array_equal(got, ref):
        bad.append("(c) np.where(scalar_field > 0.5, vector_field, 0) with Ne == nPg == dim pairs cond[p, i] with x[e, p, i]")
except Exception as err:  # noqa: BLE001
    bad.append(f"(c) np.where raised {type(err).__name__}: {err}")

if bad:
    print("defect:", *bad, sep="\n  ")
    sys.exit(1)
sys.exit(0)
