"""C12 defect (unchanged tree): a two-output ufunc on two fields of the same shape crashes.

FeArray.__array_ufunc__ has a fast path for 'two FeArrays of the same shape': it returns
ufunc(left.view(ndarray), right.view(ndarray)).view(FeArray). For ufuncs with two outputs
(np.divmod; also the builtin divmod(a, b)) the ufunc returns a tuple, and `.view` raises
AttributeError: 'tuple' object has no attribute 'view'. With operands of different shapes the
general path is taken and the same call works (it returns a tuple of FeArrays), so the failure
depends only on the shapes being equal. Expected: (a // b, a % b) at every (e, p).
exit 1 when the defect is present.
"""
import sys
import numpy as np
from EasyFEA.FEM._linalg import FeArray

rng = np.random.default_rng(0)
a = FeArray.asfearray(rng.random((5, 4, 3)) + 1)
b = FeArray.asfearray(rng.random((5, 4, 3)) + 0.1)
try:
    q, r = np.divmod(a, b)
except Exception as err:  # noqa: BLE001
    print(f"defect: np.divmod(field, field) raised {type(err).__name__}: {err}")
    sys.exit(1)
ok = np.allclose(np.asarray(q), np.asarray(a) // np.asarray(b)) and np.allclose(
    np.asarray(r), np.asarray(a) % np.asarray(b)
)
sys.exit(0 if ok else 1)
