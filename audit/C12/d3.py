"""C12 / d3 -- FeArray.trace(), .transpose(), .swapaxes(), .diagonal() act on the (Ne, nPg) axes
and still come back typed as finite-element arrays.

FeArray redefines `.T`, `.dot`, `@`, `.sum`, ... so that they mean the tensor operation at every
(element, Gauss point).  The sibling ndarray methods `.trace()` and `.transpose()` (numpy defines
`a.T == a.transpose()`) are inherited unchanged: they are ndarray *methods*, so they go through
neither __array_ufunc__ nor __array_function__, and numpy re-tags their result with the subclass.
For a matrix field M of shape (Ne, nPg, 3, 3) = (4, 2, 3, 3) -- no shape coincidence at all --
    M.trace()      -> FeArray of shape (3, 3)  = sum_k M[k, k, :, :]   (not tr M[e, p], not a field)
    M.transpose()  -> FeArray of shape (3, 3, 2, 4)                     (not M[e, p].T, not a field)
and the next arithmetic operation reads them as fields with Ne = 3, nPg = 3.
exit 1 when the defect manifests, 0 otherwise.
"""
import sys
import numpy as np
from EasyFEA.FEM._linalg import FeArray, Trace


def per_point(fn, X):
    Ne, nPg = X.shape[:2]
    first = np.asarray(fn(X[0, 0]))
    out = np.zeros((Ne, nPg) + first.shape)
    for e in range(Ne):
        for p in range(nPg):
            out[e, p] = fn(X[e, p])
    return out


def check(name, got, ref, ne_npg):
    """The property allows two outcomes only: the per-(e, p) tensor operation as a FeArray, or --
    if the leading axes are not preserved -- a plain ndarray.  Anything else is the defect."""
    is_fe = isinstance(got, FeArray)
    per_point_ok = np.shape(got) == ref.shape and np.allclose(np.asarray(got), ref)
    keeps_axes = np.ndim(got) >= 2 and np.shape(got)[:2] == ne_npg
    bad_value = not per_point_ok
    bad_type = is_fe and not per_point_ok  # tagged as a field although it is not the field result
    print(f"  {name:28s} -> {type(got).__name__}{np.shape(got)};  per-point reference shape {ref.shape};"
          f"  equals per-point op: {per_point_ok};  leading axes kept: {keeps_axes};  typed FeArray: {is_fe}")
    return bad_value, bad_type


if __name__ == "__main__":
    rng = np.random.default_rng(0)
    defect = False
    for Ne, nPg, d in [(4, 2, 3), (3, 3, 3)]:  # second case: same shapes as the per-point result, different values
        M_np = rng.random((Ne, nPg, d, d))
        M = FeArray.asfearray(M_np)
        print(f"matrix field (Ne, nPg, d, d) = {M.shape}")

        # controls: the documented spellings are right
        assert np.allclose(np.asarray(Trace(M)), per_point(np.trace, M_np))
        assert np.allclose(np.asarray(M.T), per_point(np.transpose, M_np))

        results = [
            check("M.trace()", M.trace(), per_point(np.trace, M_np), (Ne, nPg)),
            check("M.transpose()", M.transpose(), per_point(np.transpose, M_np), (Ne, nPg)),
            check("M.diagonal()", M.diagonal(), per_point(np.diagonal, M_np), (Ne, nPg)),
            check("M.swapaxes(0, 1)", M.swapaxes(0, 1), M_np, (Ne, nPg)),
        ]
        for bad_value, bad_type in results:
            defect |= bad_value and bad_type

        # downstream consequence: the mis-typed (d, d) result is used as a scalar field on a d x d "mesh"
        t = M.trace()
        if isinstance(t, FeArray) and t.shape == (d, d):
            I = np.eye(d)
            sph = t * I  # meant: (tr M) I ; per-point reference has shape (Ne, nPg, d, d)
            ref = per_point(lambda m: np.trace(m) * I, M_np)
            print(f"  M.trace() * eye({d}) has shape {np.shape(sph)} (typed {type(sph).__name__}); "
                  f"per-point (tr M) I has shape {ref.shape}")
    if defect:
        print("DEFECT: inherited ndarray methods trace/transpose/diagonal/swapaxes operate on the element and "
              "Gauss-point axes yet return FeArray; neither the per-point tensor operation nor a plain array.")
        sys.exit(1)
    print("no defect")
    sys.exit(0)
