"""C15 / finding 1 -- Set_Iter restores according to the algorithm that is active NOW,
not according to what the iteration holds.

Every Set_Iter override decides which fields it restores from ``self.algo`` at the time of the
call (the time-integration scheme currently selected), while Save_Iter decided what to store from
``self.algo`` at the time of the save.  As soon as the scheme is changed between the two (a steady
state followed by a transient, a dynamic phase followed by a static one) restoring an iteration

  (a) raises ``KeyError: 'v'`` in Simulations.WeakForms (iteration saved under the elliptic
      algorithm, restored under the parabolic / hyperbolic one), although the iteration is intact
      (Get_results(i) returns it);
  (b) leaves the velocity of ANOTHER iteration in place in Simulations.WeakForms (iteration saved
      under the parabolic algorithm, restored under the elliptic one);
  (c) silently zeroes speed and acceleration in Simulations.Elastic (same code in HyperElastic,
      Beam, and thermalDot in Thermal): ``simu.Result("speed", iter=i)`` returns zeros although the
      stored iteration holds the velocity that was current when it was saved.

Reference: the fields read from the simulation right after each Save_Iter (plain copies kept by
this script) and the stored dictionaries themselves (Get_results).

exit 1 when the defect manifests, 0 otherwise.
"""

import os
import shutil
import sys
import tempfile

import numpy as np

from EasyFEA import ElemType, Models, Simulations
from EasyFEA.FEM import BiLinearForm, Field
from EasyFEA.Geoms import Domain, Point

defects = []


def report(ok: bool, text: str):
    print(("  ok      " if ok else "  DEFECT  ") + text)
    if not ok:
        defects.append(text)


# --------------------------------------------------------------------------------------
# (a) + (b) Simulations.WeakForms : steady state, then a transient
# --------------------------------------------------------------------------------------
def weakforms(folder: str):
    mesh = Domain((0, 0), (1, 1), 0.3).Mesh_2D([], ElemType.TRI3)
    field = Field(mesh.groupElem, 1)

    @BiLinearForm
    def k_form(u: Field, v: Field):
        return u.grad.dot(v.grad)

    @BiLinearForm
    def c_form(u: Field, v: Field):
        return u.dot(v)

    simu = Simulations.WeakForms(
        mesh, Models.WeakForms(field, k_form, computeC=c_form), folder=folder
    )
    n0 = mesh.Nodes_Conditions(lambda x, y, z: x == 0)
    n1 = mesh.Nodes_Conditions(lambda x, y, z: x == 1)

    saved = []  # what was current when each iteration was saved

    # iteration 0 : steady state (elliptic algorithm, the default)
    simu.add_dirichlet(n0, [0], ["u"])
    simu.add_dirichlet(n1, [1], ["u"])
    simu.Solve()
    simu.Save_Iter()
    saved.append((simu.u, simu.v))

    # iterations 1..3 : transient from that state
    simu.Solver_Set_Parabolic_Algorithm(dt=0.01)
    simu.Bc_Init()
    simu.add_dirichlet(n0, [0], ["u"])
    simu.add_dirichlet(n1, [2], ["u"])
    for _ in range(3):
        simu.Solve()
        simu.Save_Iter()
        saved.append((simu.u, simu.v))

    mode = "disk" if folder else "memory"

    # (a) go back to the steady state while the parabolic algorithm is selected
    stored0 = simu.Get_results(0)
    report(
        np.array_equal(stored0["u"], saved[0][0]),
        f"WeakForms[{mode}] the stored iteration 0 is intact (Get_results)",
    )
    try:
        simu.Set_Iter(0)
        ok = np.array_equal(simu.u, saved[0][0])
        report(ok, f"WeakForms[{mode}] Set_Iter(0) under the parabolic algorithm")
    except Exception as err:  # KeyError: 'v'
        report(
            False,
            f"WeakForms[{mode}] Set_Iter(0) under the parabolic algorithm raises "
            f"{type(err).__name__}: {err}",
        )

    # (b) select the elliptic algorithm again (e.g. a final steady state) and read iteration 2
    simu.Set_Iter(3)
    simu.Solver_Set_Elliptic_Algorithm()
    simu.Set_Iter(2)
    err_u = np.abs(simu.u - saved[2][0]).max()
    err_v = np.abs(simu.v - saved[2][1]).max() / np.abs(saved[2][1]).max()
    report(err_u == 0, f"WeakForms[{mode}] Set_Iter(2) under elliptic: u restored")
    report(
        err_v < 1e-12,
        f"WeakForms[{mode}] Set_Iter(2) under elliptic: v restored "
        f"(relative error {err_v:.2e}; v is the one of iteration 3: "
        f"{np.array_equal(simu.v, saved[3][1])})",
    )


# --------------------------------------------------------------------------------------
# (c) Simulations.Elastic : a dynamic phase, then a static one
# --------------------------------------------------------------------------------------
def elastic(folder: str):
    mesh = Domain(Point(), Point(1, 1), 0.3).Mesh_2D([], ElemType.TRI3)
    mat = Models.Elastic.Isotropic(2, E=210e3, v=0.3, planeStress=True, thickness=1.0)
    simu = Simulations.Elastic(mesh, mat, folder=folder)
    simu.rho = 8e-9
    n0 = mesh.Nodes_Conditions(lambda x, y, z: x == 0)
    n1 = mesh.Nodes_Conditions(lambda x, y, z: x == 1)

    saved = []
    simu.Solver_Set_Hyperbolic_Algorithm(dt=1e-6)
    simu.add_dirichlet(n0, [0, 0], ["x", "y"])
    simu.add_surfLoad(n1, [100.0], ["x"])
    for _ in range(4):
        simu.Solve()
        simu.Save_Iter()
        saved.append((simu.displacement, simu.speed, simu.accel))

    # static phase afterwards
    simu.Solver_Set_Elliptic_Algorithm()
    simu.Solve()
    simu.Save_Iter()

    mode = "disk" if folder else "memory"
    i = 2
    stored = simu.Get_results(i)
    report(
        np.array_equal(stored["speed"], saved[i][1])
        and np.array_equal(stored["accel"], saved[i][2]),
        f"Elastic[{mode}] the stored iteration {i} holds the speed / accel of the time",
    )
    simu.Set_Iter(i)
    vmax = np.abs(saved[i][1]).max()
    amax = np.abs(saved[i][2]).max()
    err_v = np.abs(simu.speed - saved[i][1]).max() / vmax
    err_a = np.abs(simu.accel - saved[i][2]).max() / amax
    report(
        np.array_equal(simu.displacement, saved[i][0]),
        f"Elastic[{mode}] Set_Iter({i}): displacement restored",
    )
    report(
        err_v < 1e-12 and err_a < 1e-12,
        f"Elastic[{mode}] Set_Iter({i}): speed / accel restored (relative errors "
        f"{err_v:.2e} / {err_a:.2e}, max |speed| now {np.abs(simu.speed).max():.3e}, "
        f"at the time {vmax:.3e})",
    )
    res = simu.Result("speed", iter=i)
    report(
        res is not None and np.allclose(res, saved[i][1], rtol=1e-12, atol=0),
        f"Elastic[{mode}] Result('speed', iter={i}) equals the one obtained at the time",
    )


if __name__ == "__main__":
    tmp = tempfile.mkdtemp(prefix="c15_d1_")
    try:
        for folder in ["", os.path.join(tmp, "wf")]:
            weakforms(folder)
        for folder in ["", os.path.join(tmp, "el")]:
            elastic(folder)
    finally:
        shutil.rmtree(tmp, ignore_errors=True)

    print()
    if defects:
        print(f"{len(defects)} deviation(s): restoring depends on the algorithm selected at")
        print("restore time, not on what the iteration stored.")
        sys.exit(1)
    print("no deviation")
    sys.exit(0)
