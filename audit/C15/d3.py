"""C15 / finding 3 -- a Simulations.WeakForms simulation whose forms are written with the
``@BiLinearForm`` / ``@LinearForm`` decorators (the way every test and example writes them) cannot
be saved: ``simu.Save(folder)`` raises ``PicklingError: Can't pickle <function k_form ...>: it's not
the same object as __main__.k_form`` (module level) or ``Can't pickle local object`` (forms defined
inside a function), so ``Load_Simu`` can never give the simulation back.

The decorator replaces the name ``k_form`` of the module by the BiLinearForm instance, which keeps
the original function in ``_form``; pickle serialises a function by reference (module + qualified
name) and that name now designates the form object, not the function.

The control case (same forms, built with ``BiLinearForm(function)`` from a function that keeps its own
name) is saved and loaded back with the same history and the same results, which shows what the
property promises and that the decorator is the trigger.

The failed Save is not without effect either: the save folder of the live simulation is changed, the
meshes of the history are written, and the mesh list is turned into paths.

exit 1 when the defect manifests, 0 otherwise.
"""

import os
import shutil
import sys
import tempfile

import numpy as np

from EasyFEA import ElemType, Models, Simulations
from EasyFEA.FEM import BiLinearForm, Field, LinearForm
from EasyFEA.Geoms import Domain
from EasyFEA.Simulations import Load_Simu

defects = []


def report(ok: bool, text: str):
    print(("  ok      " if ok else "  DEFECT  ") + text)
    if not ok:
        defects.append(text)


# ------------------------------------------------------------------ forms, module level
@BiLinearForm
def k_form(u: Field, v: Field):
    return u.grad.dot(v.grad)


@LinearForm
def f_form(v: Field):
    return 3.0 * v


def _k_function(u: Field, v: Field):
    return u.grad.dot(v.grad)


def _f_function(v: Field):
    return 3.0 * v


k_plain = BiLinearForm(_k_function)
f_plain = LinearForm(_f_function)


def Build(mesh, computeK, computeF):
    field = Field(mesh.groupElem, 1)
    simu = Simulations.WeakForms(
        mesh, Models.WeakForms(field, computeK, computeF=computeF)
    )
    n0 = mesh.Nodes_Conditions(lambda x, y, z: x == 0)
    n1 = mesh.Nodes_Conditions(lambda x, y, z: x == 1)
    for value in [1.0, 2.0]:
        simu.Bc_Init()
        simu.add_dirichlet(n0, [0], ["u"])
        simu.add_dirichlet(n1, [value], ["u"])
        simu.Solve()
        simu.Save_Iter()
    return simu


def Round_trip(label: str, simu, folder: str, counts: bool = True):
    expected = [simu.Get_results(i)["u"].copy() for i in range(simu.Niter)]
    folderBefore = simu.folder
    try:
        simu.Save(folder)
    except Exception as err:
        text = f"{label}: Save raises {type(err).__name__}: {str(err)[:110]}"
        if counts:
            report(False, text)
        else:
            print("  note    " + text)
        print(
            f"          (after the failed Save: simu.folder {folderBefore!r} -> "
            f"{os.path.basename(simu.folder)!r}, simulation.pickle "
            f"{os.path.getsize(os.path.join(folder, 'simulation.pickle'))} bytes)"
        )
        try:
            back = Load_Simu(folder)  # an empty simulation.pickle was left behind
            print(f"          Load_Simu(folder) -> {back!r}")
        except Exception as err2:
            print(f"          Load_Simu(folder) -> {type(err2).__name__}")
        return

    loaded = Load_Simu(folder)
    same = loaded.Niter == len(expected) and all(
        np.array_equal(loaded.Set_Iter(i)["u"], expected[i])
        and np.array_equal(loaded.Result("u", iter=i), expected[i])
        for i in range(len(expected))
    )
    same = same and np.array_equal(loaded.mesh.coord, simu.mesh.coord)
    # the loaded simulation can go on
    loaded.Need_Update()
    loaded.Solve()
    same = same and np.allclose(loaded.u, expected[-1], rtol=1e-12, atol=1e-14)
    report(same, f"{label}: saved, loaded back with the same history, and solved again")


if __name__ == "__main__":
    tmp = tempfile.mkdtemp(prefix="c15_d3_")
    try:
        mesh = Domain((0, 0), (1, 1), 0.3).Mesh_2D([], ElemType.TRI3)

        # control: forms built without the decorator syntax
        Round_trip(
            "forms = BiLinearForm(function)",
            Build(mesh.copy(), k_plain, f_plain),
            os.path.join(tmp, "plain"),
        )

        # forms written with the decorators, at module level
        Round_trip(
            "@BiLinearForm / @LinearForm at module level",
            Build(mesh.copy(), k_form, f_form),
            os.path.join(tmp, "decorated"),
        )

        # forms written with the decorators inside a function (as in tests/ and examples/)
        def Local():
            @BiLinearForm
            def k_local(u: Field, v: Field):
                return u.grad.dot(v.grad)

            return Build(mesh.copy(), k_local, None)

        # (not counted: a function defined inside another one cannot be pickled by the standard
        #  library whatever the form class does; it is what makes the simulations of tests/ and
        #  examples/ impossible to save, though)
        Round_trip(
            "@BiLinearForm inside a function",
            Local(),
            os.path.join(tmp, "local"),
            counts=False,
        )
    finally:
        shutil.rmtree(tmp, ignore_errors=True)

    print()
    if defects:
        print(f"{len(defects)} deviation(s): a WeakForms simulation written with the decorators cannot be saved.")
        sys.exit(1)
    print("no deviation")
    sys.exit(0)
