"""DEFECT of the UNCHANGED library (property C15) - Simulations.WeakForms.Set_Iter under the
elliptic algorithm restores u only and leaves v (and a) of ANOTHER iteration in place.

WeakForms.Set_Iter reads u, v, a from the iteration (missing rates -> zeros) but then hands them
to _Set_solutions according to the algorithm selected NOW:

    elliptic   -> _Set_solutions(problemType, u)            # v, a untouched
    parabolic  -> _Set_solutions(problemType, u, v)         # a untouched

So after a transient analysis (iterations holding u and v), once the user switches back to the
steady-state algorithm (Solver_Set_Elliptic_Algorithm, legal, e.g. to compute the stationary limit)

    simu.Set_Iter(0); simu.v          ->  v of the LAST solved/restored state, not of iteration 0
    simu.Result("v", iter=0)          ->  idem

The state is then a mix of two iterations (u of iteration 0, v of iteration 2): neither the saved
value nor zero. The sibling simulations (Elastic, Thermal, Beam, HyperElastic) always set the rates
(to zero when they do not apply), and commit 7b7ac5d fixed the mirror case of this same method.

exit 1: defect present, exit 0: fixed (v of iteration 0, or zeros, after Set_Iter(0)).
"""

import sys

import numpy as np

from EasyFEA import ElemType, Models, Simulations
from EasyFEA.FEM import Field, BiLinearForm
from EasyFEA.Geoms import Domain

mesh = Domain((0, 0), (1, 1), 0.25).Mesh_2D([], ElemType.TRI3)
nodesX0 = mesh.Nodes_Conditions(lambda x, y, z: x == 0)
nodesX1 = mesh.Nodes_Conditions(lambda x, y, z: x == 1)
field = Field(mesh.groupElem, 1)


@BiLinearForm
def K(u, v):
    return u.grad.dot(v.grad)


@BiLinearForm
def C(u, v):
    return u.dot(v)


simu = Simulations.WeakForms(mesh, Models.WeakForms(field, K, C), verbosity=False)
simu.Solver_Set_Parabolic_Algorithm(dt=0.05, alpha=1.0)
simu.add_dirichlet(nodesX0, [0], ["u"])
simu.add_dirichlet(nodesX1, [1], ["u"])

saved = []
for i in range(3):
    simu.Solve()
    simu.Save_Iter()
    saved.append((simu.u, simu.v))

# under the algorithm the iterations were saved with, everything comes back
simu.Set_Iter(0)
assert np.allclose(simu.u, saved[0][0]) and np.allclose(simu.v, saved[0][1])
simu.Set_Iter(2)

simu.Solver_Set_Elliptic_Algorithm()
simu.Set_Iter(0)
u, v = simu.u, simu.v
vResult = simu.Result("v", iter=0)

scale = np.abs(saved[0][1]).max()
is_v0 = np.abs(v - saved[0][1]).max() <= 1e-9 * scale
is_zero = np.abs(v).max() == 0
is_v2 = np.abs(v - saved[2][1]).max() <= 1e-9 * scale

print("u of iteration 0 restored  :", bool(np.allclose(u, saved[0][0])))
print("v == v saved with iteration 0:", bool(is_v0))
print("v == 0                       :", bool(is_zero))
print("v == v of iteration 2 (stale):", bool(is_v2))

if not (is_v0 or is_zero) or not (
    np.allclose(vResult, saved[0][1]) or np.abs(vResult).max() == 0
):
    print(
        "\nDEFECT PRESENT: after Set_Iter(0) under the elliptic algorithm the simulation holds "
        "u of iteration 0 together with v of iteration 2."
    )
    sys.exit(1)
print("\nOK")
sys.exit(0)
