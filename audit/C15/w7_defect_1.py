"""DEFECT of the UNCHANGED library (property C15) - Simulations.Beam, several meshes in one history, Save.

_Simu.Save replaces every mesh of the mesh history by the path of its pickle (Mesh.Save), and
_Simu.Set_Iter -> __Update_mesh reads such a mesh back with Load_Mesh when the restored iteration
lives on another mesh than the active one. Mesh.Save / Load_Mesh only store (elemType, connect,
coordinates, tags) and rebuild the groups with GroupElemFactory.Create(elemType, ...): the beam
element groups (_EulerBernoulli / _Timoshenko, built by Simulations.Beam from the line mesh) come
back as plain SEG2 / SEG3 groups. So, for a Beam simulation whose history holds two meshes, as soon
as Save has been called (in the live simulation as well as in the Load_Simu copy):

    simu.Set_Iter(i)  (iteration i saved on the mesh that is not the active one)
    simu.Result("Mz" | "N" | "Ty" | "Stress" | ..., iter=i)

stops on the bare `assert isinstance(groupElem, (_Timoshenko, _EulerBernoulli))` of
Beam._Calc_Epsilon_e_pg (and a Solve from that state fails in the same way), although the very
same queries worked before Save. "Saving a simulation and loading it back yields an object with the
same mesh, history and results" and "restoring iteration i brings back the mesh that was current"
are both violated. (The Beam.mesh setter converts plain line meshes, but __Update_mesh assigns
self.__mesh directly and does not go through it.)

exit 1: defect present, exit 0: fixed.
"""

import sys
import tempfile

import numpy as np

from EasyFEA import Models, Simulations, Mesher, ElemType
from EasyFEA.Geoms import Domain, Point, Line

L = 10.0
b = h = 0.1
mesher = Mesher()
section = mesher.Mesh_2D(Domain(Point(-b / 2, -h / 2), Point(b / 2, h / 2)))
p1, p2 = Point(), Point(x=L)
line = Line(p1, p2, L / 4)
beam = Models.Beam.Isotropic(2, line, section, 200000e6, 0.3)
structure = Models.Beam.BeamStructure([beam])


def load(simu, P):
    mesh = simu.mesh
    simu.Bc_Init()
    simu.add_dirichlet(
        mesh.Nodes_Point(p1), [0] * simu.Get_dof_n(), simu.Get_unknowns()
    )
    simu.add_neumann(mesh.Nodes_Point(p2), [P], ["y"])


NAMES = ["uy", "Mz", "Ty"]

simu = Simulations.Beam(
    mesher.Mesh_Beams([beam], elemType=ElemType.SEG2), structure, verbosity=False
)
load(simu, -1000.0)
simu.Solve()
simu.Save_Iter()
refs = [{k: simu.Result(k, nodeValues=False) for k in NAMES}]

simu.mesh = mesher.Mesh_Beams([beam], elemType=ElemType.SEG3)
load(simu, -2000.0)
simu.Solve()
simu.Save_Iter()
refs.append({k: simu.Result(k, nodeValues=False) for k in NAMES})

errors = []


def check(tag, s):
    for i in [0, 1, 0]:
        for k in NAMES:
            try:
                got = s.Result(k, nodeValues=False, iter=i)
                err = np.abs(got - refs[i][k]).max() / np.abs(refs[i][k]).max()
                if not err <= 1e-8:
                    errors.append(f"{tag}: {k} of iteration {i} differs ({err:.2e})")
            except Exception as exc:
                errors.append(
                    f"{tag}: Result('{k}', iter={i}) raised {type(exc).__name__} {exc} "
                    f"(mesh groups: {[type(g).__name__ for g in s.mesh.Get_list_groupElem()]})"
                )


# before Save everything is fine
check("before Save", simu)
assert not errors, errors

folder = tempfile.mkdtemp(prefix="c15_defect1_")
simu.Save(folder)
check("live simulation after Save", simu)
check("Load_Simu copy", Simulations.Load_Simu(folder))

if errors:
    print("\nDEFECT PRESENT (Beam, two meshes in the history, Save):")
    for e in dict.fromkeys(errors):
        print("  -", e)
    sys.exit(1)
print("\nOK")
sys.exit(0)
