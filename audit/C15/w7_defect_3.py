"""DEFECT of the UNCHANGED library (property C15) - the dict returned by Get_results / Set_Iter
shares its arrays with the in-memory history: "reading a stored iteration" hands out the stored
arrays themselves, so the stored iteration depends on what the reader does with them, and the
behaviour differs between the two storage modes.

_Simu.Get_results(i) returns `entry.copy()` for an iteration kept in memory (folder == ""): a
SHALLOW copy, whose arrays (and nested dicts: 'state' of InElastic, 'psiP_e_pg' of PhaseField) are
the objects of the history. For an iteration written to disk it returns a fresh unpickled dict.
Hence, with the same user code

    res = simu.Get_results(0)          # docstring: "Pure read - no mutation of simulation state"
    res["displacement"] *= 1000        # e.g. m -> mm for a plot, on what the user was handed

the stored iteration 0 is rewritten when the history is in memory (Get_results(0), Set_Iter(0),
Result(name, iter=0) and a later Save all see the scaled field) and untouched when the simulation
has a folder. All the other read accessors (simu.displacement, _Get_u_n / _Get_v_n / _Get_a_n,
Result) return copies precisely to prevent this.

exit 1: defect present, exit 0: fixed.
"""

import sys
import tempfile

import numpy as np

from EasyFEA import Models, Simulations
from EasyFEA.Geoms import Domain, Point

mesh = Domain(Point(), Point(1, 1), meshSize=0.5).Mesh_2D()
mat = Models.Elastic.Isotropic(dim=2, E=210e3, v=0.3, planeStress=True, thickness=1.0)

bad = []
for mode, folder in [("memory", ""), ("disk", tempfile.mkdtemp(prefix="c15_defect3_"))]:
    simu = Simulations.Elastic(mesh, mat, folder=folder, verbosity=False)
    simu.add_dirichlet(
        mesh.Nodes_Conditions(lambda x, y, z: x == 0), [0, 0], ["x", "y"]
    )
    simu.add_dirichlet(mesh.Nodes_Conditions(lambda x, y, z: x == 1), [0.1], ["x"])
    simu.Solve()
    simu.Save_Iter()
    u0 = simu.displacement
    svm0 = simu.Result("Svm", nodeValues=False)

    res = simu.Get_results(0)
    res["displacement"] *= 1000.0  # in-place operation on the returned array

    stored = simu.Get_results(0)["displacement"]
    svm = simu.Result("Svm", nodeValues=False, iter=0)
    changed = not np.allclose(stored, u0) or not np.allclose(svm, svm0)
    print(f"{mode:6s}: stored iteration altered by the reader: {changed}")
    if changed:
        bad.append(mode)

if bad:
    print(
        f"\nDEFECT PRESENT: Get_results hands out the arrays of the history ({', '.join(bad)} mode): "
        "an in-place operation on the result of a read rewrote the stored iteration."
    )
    sys.exit(1)
print("\nOK")
sys.exit(0)
