"""C15 / finding 2 -- several meshes in one history with a history-dependent material:
replacing the mesh resets the fields but not the internal variables.

``simu.mesh = newMesh`` (the documented way to continue a history on another mesh: the setter
registers the mesh in the history, re-initialises the boundary conditions and the solutions)
does not touch the material history kept by the simulation:

  * Simulations.InElastic keeps ``__zOld`` / ``__z`` (committed / trial internal variables, keyed by
    element type).  On a new mesh with the same element type
      - and another number of elements the next Solve stops with an undocumented
        ``ValueError: operands could not be broadcast together``;
      - and the same number of elements the plastic strains of the elements of the OLD mesh are
        silently attached to the elements of the new one: the first (purely elastic) step on the
        new mesh shows plasticity, and the iteration saved on the new mesh stores the internal
        variables of the old mesh.
  * Simulations.PhaseField (History solver) keeps ``__old_psiP_e_pg``.  It is dropped only when
    its shape (Ne, nPg) differs from the one of the new mesh (a shape coincidence decides):
    on a new mesh of the same size the broken state of the old mesh re-appears at a load
    10 times below the first load step, although damage and displacement were reset to zero.

Reference: the same steps on a FRESH simulation built on the new mesh (that is what a history
continued on a new mesh with zero fields has to give: u, d, v, a are reset by the setter).

exit 1 when the defect manifests, 0 otherwise.
"""

import sys

import numpy as np

from EasyFEA import ElemType, Models, Simulations, SolverType
from EasyFEA.Geoms import Domain, Point
from EasyFEA.Models.Elastic import Isotropic

defects = []
lines = []


def report(ok: bool, text: str):
    # kept and printed at the end: the Newton-Raphson solver prints its iterations
    lines.append(("  ok      " if ok else "  DEFECT  ") + text)
    if not ok:
        defects.append(text)


# --------------------------------------------------------------------------------------
# InElastic
# --------------------------------------------------------------------------------------
E, nu, L, H = 210000.0, 0.3, 10.0, 2.0


def Bar(meshSize: float):
    return Domain(Point(), Point(L, H), meshSize).Mesh_2D(
        [], ElemType.TRI3, isOrganised=True
    )


def New_InElastic(mesh):
    behavior = Models.InElastic.Behavior(
        2,
        Isotropic(3, E=E, v=nu),
        yieldSurface=Models.InElastic.Yield.VonMises(250.0),
        hardening=Models.InElastic.IsotropicHardening.Linear(2000.0),
        thickness=1.0,
    )
    return Simulations.InElastic(mesh, behavior)


def Pull(simu, u: float):
    mesh = simu.mesh
    simu.Bc_Init()
    simu.add_dirichlet(mesh.Nodes_Conditions(lambda x, y, z: x == 0), [0, 0], ["x", "y"])
    simu.add_dirichlet(mesh.Nodes_Conditions(lambda x, y, z: x == L), [u], ["x"])
    simu.Solve()
    simu.Save_Iter()


def inelastic():
    # yield at u = 250 / E * L = 0.0119: the last two steps are plastic
    simu = New_InElastic(Bar(1.0))
    for u in [0.006, 0.012, 0.018]:
        Pull(simu, u)
    p_old = simu.Result("p", nodeValues=False)
    lines.append(
        f"  InElastic: mesh 0 has {simu.mesh.Ne} elements, "
        f"max cumulated plastic strain {p_old.max():.3e}"
    )

    # ---- a finer mesh, same element type -------------------------------------------
    uElastic = 0.006  # half the yield displacement
    fresh = New_InElastic(Bar(0.5))
    Pull(fresh, uElastic)

    simu.mesh = Bar(0.5)
    try:
        Pull(simu, uElastic)
        ok = np.allclose(simu.displacement, fresh.displacement, rtol=1e-8, atol=1e-14)
        report(ok, "InElastic: first step on a finer mesh equals the fresh simulation")
    except Exception as err:
        report(
            False,
            "InElastic: first step on a finer mesh (same element type) raises "
            f"{type(err).__name__}: {str(err)[:90]}",
        )

    # ---- a mesh of the same size -----------------------------------------------------
    simu = New_InElastic(Bar(1.0))
    for u in [0.006, 0.012, 0.018]:
        Pull(simu, u)
    state_old = simu.Get_results(2)["state"]

    fresh = New_InElastic(Bar(1.0))
    Pull(fresh, uElastic)

    simu.mesh = Bar(1.0)  # mesh 1 of the history; u is reset to zero by the setter
    report(np.abs(simu.displacement).max() == 0, "InElastic: the setter resets the displacement")
    Pull(simu, uElastic)
    p_new = simu.Result("p", nodeValues=False)
    p_ref = fresh.Result("p", nodeValues=False)
    S_new = simu.Result("Sxx", nodeValues=False)
    S_ref = fresh.Result("Sxx", nodeValues=False)
    report(
        np.allclose(p_new, p_ref, atol=1e-12),
        "InElastic: elastic step on a new mesh of the same size: cumulated plastic strain "
        f"max {p_new.max():.3e} (fresh simulation {p_ref.max():.3e})",
    )
    report(
        np.allclose(S_new, S_ref, rtol=1e-6, atol=1e-6),
        f"InElastic: Sxx mean {S_new.mean():.2f} (fresh simulation {S_ref.mean():.2f})",
    )
    state_new = simu.Get_results(3)["state"]
    state_ref = fresh.Get_results(0)["state"]
    err = max(np.abs(state_new[k] - state_ref[k]).max() for k in state_ref)
    report(
        err < 1e-12,
        "InElastic: internal variables stored by the iteration saved on mesh 1 equal those of "
        f"the fresh simulation (max difference {err:.3e}, the largest plastic strain ever "
        f"reached on mesh 0 is {max(np.abs(v).max() for v in state_old.values()):.3e})",
    )


# --------------------------------------------------------------------------------------
# PhaseField (History)
# --------------------------------------------------------------------------------------
a, l0 = 1.0, 0.2


def Plate(meshSize: float):
    return Domain((0, 0), (a, a), meshSize).Mesh_2D([], ElemType.TRI3)


def New_PhaseField(mesh):
    mat = Models.Elastic.Isotropic(2, E=210000, v=0.3, planeStress=True, thickness=1)
    pfm = Models.PhaseField(mat, "Amor", "AT2", 2.7e-3, l0, solver="History")
    simu = Simulations.PhaseField(mesh, pfm)
    simu.solver = SolverType.scipy
    return simu


def Stretch(simu, ud: float):
    mesh = simu.mesh
    simu.Bc_Init()
    simu.add_dirichlet(mesh.Nodes_Conditions(lambda x, y, z: x == 0), [0, 0], ["x", "y"])
    simu.add_dirichlet(mesh.Nodes_Conditions(lambda x, y, z: x == a), [ud], ["x"])
    simu.Solve(1e-1, 50)
    simu.Save_Iter()


def phasefield():
    tiny = 1e-5  # ten times below the first load step
    for label, newSize in [("another size", l0 / 3), ("the same size", l0 / 2)]:
        simu = New_PhaseField(Plate(l0 / 2))
        for ud in [1e-4, 3e-4, 5e-4]:
            Stretch(simu, ud)
        dOld = simu.damage.max()

        fresh = New_PhaseField(Plate(newSize))
        Stretch(fresh, tiny)

        simu.mesh = Plate(newSize)
        zeroed = simu.damage.max() == 0 and np.abs(simu.displacement).max() == 0
        Stretch(simu, tiny)
        report(
            zeroed and abs(simu.damage.max() - fresh.damage.max()) < 1e-8,
            f"PhaseField: new mesh of {label} (old max damage {dOld:.3f}, fields reset: {zeroed}): "
            f"max damage after a tiny step {simu.damage.max():.3e} "
            f"(fresh simulation {fresh.damage.max():.3e})",
        )


if __name__ == "__main__":
    import contextlib
    import io

    with contextlib.redirect_stdout(io.StringIO()):
        inelastic()
        phasefield()

    print("\n".join(lines))

    print()
    if defects:
        print(f"{len(defects)} deviation(s): the material history survives the replacement of the mesh.")
        sys.exit(1)
    print("no deviation")
    sys.exit(0)
