"""Defect of the UNCHANGED library (C04: 'multi-point (connection) constraints are satisfied exactly').

Beam.add_connection / add_connection_fixed / add_connection_hinged take a list of coincident nodes and tie their
unknowns with Lagrange conditions. The node list is not restricted to two nodes by the signature or the docstring
('nodes : nodes'), and a joint where THREE members meet (mesh.Nodes_Point(joint) returns 3 coincident nodes, one per
member) is the natural way to call them. add_connection nevertheless builds, per direction, ONE LagrangeCondition
holding the dofs of all the nodes with the hard-coded coefficient pair [1, -1]
(EasyFEA/Simulations/_beam.py, add_connection: np.asarray([1, -1], dtype=float)).
Nothing is reported when the connection is entered; the following Solve() stops in Solvers.__Solver_2 /
__apply_lagrange on  A[dofs, i] = coefs  with
  ValueError: operands could not be broadcast together with remapped shapes ... (2,) and requested shape (3,)
so the structure cannot be solved (the pairwise work-around of examples/Beam/Beam5.py is needed).

Exit 1 when the defect is present (Solve raises, or the three nodes of the joint do not share their displacement),
exit 0 when the 3-node connection is solved and satisfied.
"""

import sys
import numpy as np

from EasyFEA import Mesher, ElemType, Models, Simulations
from EasyFEA.Geoms import Domain, Point, Line

mesher = Mesher()
section = mesher.Mesh_2D(Domain(Point(), Point(0.1, 0.1)))
L = 1.0
p0, p1, p2, p3 = Point(0, 0), Point(L, 0), Point(L, L), Point(2 * L, 0)
lines = [Line(p0, p1, L / 4), Line(p1, p2, L / 4), Line(p1, p3, L / 4)]
beams = [Models.Beam.Isotropic(2, line, section, 210e9, 0.3) for line in lines]
mesh = mesher.Mesh_Beams(beams, elemType=ElemType.SEG2)
simu = Simulations.Beam(mesh, Models.Beam.BeamStructure(beams), verbosity=False)
mesh = simu.mesh

joint = mesh.Nodes_Point(p1)
assert joint.size == 3, f"expected 3 coincident nodes at the joint, got {joint}"

simu.add_dirichlet(mesh.Nodes_Point(p0), [0, 0, 0], ["x", "y", "rz"])
simu.add_dirichlet(mesh.Nodes_Point(p3), [0], ["y"])
simu.add_connection_fixed(joint)  # weld the three members (accepted silently)
simu.add_neumann(mesh.Nodes_Point(p2), [1000.0], ["x"])

try:
    u = simu.Solve()
except Exception as e:  # noqa
    print(f"DEFECT: Solve() after add_connection_fixed on the 3 nodes {joint} raised {type(e).__name__}: {e}")
    sys.exit(1)

U = u.reshape(-1, 3)
gap = np.abs(U[joint] - U[joint[0]]).max() / np.abs(U).max()
if gap > 1e-9:
    print(f"DEFECT: the 3 nodes of the welded joint do not share their unknowns (relative gap {gap:.3e})")
    sys.exit(1)

print("3-node connection solved and satisfied")
sys.exit(0)
