"""C04 / finding 1: simu.solver = "gmres" returns a non-converged solution without any notice.

Solvers._Solve_Axb calls scipy.sparse.linalg.gmres (and cg / bicg / lgmres) with the default
tolerance and throws the convergence flag away (`x, output = sla.gmres(...)`, `output` never read).
On a plain 2D cantilever (123 nodes) un-preconditioned GMRES(20) stagnates, scipy reports
info = maxiter > 0, and Solve() returns a displacement field whose tip deflection is about half of
the solution of the assembled system K u = F.

Reference: dense numpy solve of the reduced system built from simu.Get_K_C_M_F() and the
boundary-condition vectors (independent of the library's solver dispatch).
exit 1 when the defect manifests, 0 otherwise.
"""

import sys
import warnings
import numpy as np

from EasyFEA import Mesher, ElemType, Models, Simulations
from EasyFEA.Geoms import Domain, Point

L, h = 100.0, 5.0
mesh = Mesher().Mesh_2D(
    Domain(Point(), Point(L, h), h / 2), [], ElemType.QUAD4, isOrganised=True
)
mat = Models.Elastic.Isotropic(2, E=210000.0, v=0.3, planeStress=True, thickness=1.0)


def build(solver):
    simu = Simulations.Elastic(mesh, mat, verbosity=False)
    simu.solver = solver
    assert simu.solver == solver
    simu.add_dirichlet(mesh.Nodes_Conditions(lambda x, y, z: x == 0), [0, 0], ["x", "y"])
    simu.add_surfLoad(mesh.Nodes_Conditions(lambda x, y, z: x == L), [-1.0 / h], ["y"])
    return simu


# ---------------- independent reference (dense numpy)
simu = build("scipy")
K, _, _, F = simu.Get_K_C_M_F()
K = K.toarray()
b = simu.Bc_vector_Neumann() + F.toarray().ravel()
uD = simu.Bc_vector_Dirichlet()
known, unknown = simu.Bc_dofs_known_unknown(simu.problemType)
u_ref = uD.copy()
u_ref[unknown] = np.linalg.solve(
    K[np.ix_(unknown, unknown)], b[unknown] - K[np.ix_(unknown, known)] @ uD[known]
)
tipDof = simu.Bc_dofs_nodes(mesh.Nodes_Conditions(lambda x, y, z: (x == L) & (y == 0)), ["y"])[0]
print(f"mesh: {mesh.Nn} nodes, {unknown.size} free dofs")
print(f"reference tip deflection (numpy dense solve)   : {u_ref[tipDof]:.6f}")

bad = False
for solver in ["scipy", "cg", "bicg", "lgmres", "gmres"]:
    simu = build(solver)
    with warnings.catch_warnings(record=True) as w:
        warnings.simplefilter("always")
        u = simu.Solve()  # returns normally, nothing raised
    res = np.linalg.norm((K @ u - b)[unknown]) / np.linalg.norm(b[unknown])
    err = np.linalg.norm(u - u_ref) / np.linalg.norm(u_ref)
    flag = ""
    # 1e-5 is scipy's default rtol, so that a converged iterative solve passes
    if res > 1e-3 or err > 1e-3:
        bad = True
        flag = "   <-- NOT a solution of K u = F, returned silently"
    print(
        f"solver={solver:7s} tip={u[tipDof]: .6f}  |K u - F|_free/|F| = {res:.2e}  "
        f"|u-u_ref|/|u_ref| = {err:.2e}  warnings={len(w)}{flag}"
    )

if bad:
    print("DEFECT: an iterative backend returned a non-converged field as the solution.")
    sys.exit(1)
print("no defect")
sys.exit(0)
