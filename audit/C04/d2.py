"""C04 / finding 2: in a 3D beam structure add_connection_hinged() welds the members.

Simulations.Beam.add_connection_hinged (EasyFEA/Simulations/_beam.py, lines 357-365) overwrites its
`unknowns` argument with ["x", "y", "z"] before testing `if unknowns != [""]`, so the test is always
true, none of "x","y","z" is a rotation, and rx, ry, rz are ALL appended: the hinge links the six
dofs, exactly like add_connection_fixed, whatever the caller passes as `unknowns`.

Structure: two collinear members A-B and B-C (length L each), A and C clamped, hinge at B, force F
in y on B.  With a hinge each member is a cantilever carrying F/2:
    uy(B) = (F/2) L^3 / (3 E Iz),   rz jumps by 2 * (F/2) L^2 / (2 E Iz) across the hinge.
With a welded joint (clamped-clamped beam of length 2L):  uy(B) = F (2L)^3 / (192 E Iz) = 4x smaller
and rz is continuous.  The 2D structure (same call) is the control.
A second reference is computed with numpy from the assembled K: the constrained problem with the
translations of the two nodes of B linked only (null-space method).
exit 1 when the defect manifests, 0 otherwise.
"""

import sys
import numpy as np
import scipy.linalg as sl

from EasyFEA import Mesher, ElemType, Models, Simulations
from EasyFEA.Geoms import Domain, Point, Line

E, v, L, F = 210000.0, 0.3, 1000.0, -100.0
section = Mesher().Mesh_2D(Domain(Point(-5, -10), Point(5, 10)))


def solve(dim, **kwargs):
    l1 = Line(Point(0, 0), Point(L, 0), L / 4)
    l2 = Line(Point(L, 0), Point(2 * L, 0), L / 4)
    b1 = Models.Beam.Isotropic(dim, l1, section, E, v)
    b2 = Models.Beam.Isotropic(dim, l2, section, E, v)
    mesh = Mesher().Mesh_Beams([b1, b2], ElemType.SEG2)
    simu = Simulations.Beam(mesh, Models.Beam.BeamStructure([b1, b2]))
    mesh = simu.mesh
    unk = simu.Get_unknowns()
    nA, nB, nC = (mesh.Nodes_Point(Point(x, 0)) for x in (0, L, 2 * L))
    assert nB.size == 2  # one node per member at the joint
    simu.add_dirichlet(nA, [0] * len(unk), unk)
    simu.add_dirichlet(nC, [0] * len(unk), unk)
    simu.add_connection_hinged(nB, **kwargs)
    simu.add_neumann(nB[:1], [F], ["y"])
    u = simu.Solve().reshape(mesh.Nn, -1)
    linked = [bc.unknowns[0] for bc in simu.Bc_Lagrange]

    # numpy reference: K u = f with the Dirichlet dofs and the TRANSLATIONS of the joint linked
    size = mesh.Nn * len(unk)
    K = simu.Get_K_C_M_F()[0][:size, :size].toarray()
    f = simu.Bc_vector_Neumann()[:size]
    rows = []
    for d in np.unique(simu.Bc_dofs_Dirichlet()):
        r = np.zeros(size)
        r[d] = 1
        rows.append(r)
    for t in unk[: (2 if dim == 2 else 3)]:
        d1, d2 = simu.Bc_dofs_nodes(nB, [t])
        r = np.zeros(size)
        r[d1], r[d2] = 1, -1
        rows.append(r)
    Z = sl.null_space(np.array(rows))
    u_ref = (Z @ np.linalg.solve(Z.T @ K @ Z, Z.T @ f)).reshape(mesh.Nn, -1)
    return u, u_ref, nB, b1.Iz, linked


bad = False
for dim, kwargs in [(2, {}), (3, {}), (3, {"unknowns": ["rz"]})]:
    u, u_ref, nB, Iz, linked = solve(dim, **kwargs)
    uy_hinge = F / 2 * L**3 / (3 * E * Iz)
    uy_weld = F * (2 * L) ** 3 / (192 * E * Iz)
    rz_jump = 2 * abs(F / 2 * L**2 / (2 * E * Iz))
    uy = u[nB[0], 1]
    jump = abs(u[nB[0], -1] - u[nB[1], -1])
    print(f"--- dim = {dim}, add_connection_hinged(nodes{', ' + str(kwargs) if kwargs else ''})")
    print(f"    dofs linked by the library : {linked}")
    print(f"    uy(B) library = {uy:.6f} | hinge closed form = {uy_hinge:.6f} | numpy ref (translations linked) = {u_ref[nB[0], 1]:.6f} | welded closed form = {uy_weld:.6f}")
    print(f"    jump of rz across B: library = {jump:.3e} | hinge closed form = {rz_jump:.3e}")
    if abs(uy - uy_hinge) > 1e-6 * abs(uy_hinge) or abs(jump - rz_jump) > 1e-6 * rz_jump:
        bad = True
        print("    --> the hinge transmits the bending moment: the members are welded")

if bad:
    print("DEFECT: add_connection_hinged links every rotation in a 3D structure.")
    sys.exit(1)
print("no defect")
sys.exit(0)
