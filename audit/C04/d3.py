"""C04 / finding 3: with the euler_explicit time scheme a non-zero Dirichlet value is silently ignored.

_Simu._Solver_Apply_Dirichlet (EasyFEA/Simulations/_simu.py, lines 1926-1928) replaces every
prescribed value by zero when algo == euler_explicit ("the solve variable is a^n: constrained DOFs
have zero acceleration") and _Solver_Update_solutions (lines 1652-1658) then sets
u^{n+1} = u^n + dt v^n on every dof, constrained ones included.  The value given to add_dirichlet is
never used: the constrained dofs keep whatever u^n + dt v^n is (0 from the initial state), and the
body is never loaded by the prescribed displacement.  The five other hyperbolic schemes
(newmark, midpoint, hht, hht_newmark, euler_implicit) hold the prescribed value exactly.

Reference: the prescribed value itself (first clause of the property), and the other schemes of
the same library on the same problem as control.
exit 1 when the defect manifests, 0 otherwise.
"""

import sys
import numpy as np

from EasyFEA import Mesher, ElemType, Models, Simulations
from EasyFEA.Geoms import Domain, Point

L, h = 10.0, 2.0
mesh = Mesher().Mesh_2D(
    Domain(Point(), Point(L, h), 1.0), [], ElemType.QUAD4, isOrganised=True
)
mat = Models.Elastic.Isotropic(2, E=1000.0, v=0.3, planeStress=True, thickness=1.0)
n0 = mesh.Nodes_Conditions(lambda x, y, z: x == 0)
nL = mesh.Nodes_Conditions(lambda x, y, z: x == L)
uImposed = 0.5
dt = 1e-3  # c = sqrt(E/rho) ~ 33, h_e = 1  ->  stable for dt < 0.03

bad = False
for algo in ["newmark", "midpoint", "hht", "hht_newmark", "euler_implicit", "euler_explicit"]:
    simu = Simulations.Elastic(mesh, mat, verbosity=False)
    simu.rho = 1.0
    simu.Solver_Set_Hyperbolic_Algorithm(dt, algo=algo, alpha=0.1)
    simu.add_dirichlet(n0, [0, 0], ["x", "y"])
    simu.add_dirichlet(nL, [uImposed], ["x"])
    for _ in range(20):
        u = simu.Solve()
    dofs = np.unique(simu.Bc_dofs_Dirichlet())
    expected = simu.Bc_vector_Dirichlet()[dofs]
    viol = np.abs(u[dofs] - expected).max()
    dofsL = simu.Bc_dofs_nodes(nL, ["x"])
    print(
        f"{algo:15s} ux(x=L) = {u[dofsL][0]: .6f} (prescribed {uImposed})   "
        f"max |u - prescribed| on constrained dofs = {viol:.3e}   max|u| = {np.abs(u).max():.3e}"
    )
    if viol > 1e-9:
        bad = True
        print("                --> the prescribed displacement is not applied (and nothing was raised)")

if bad:
    print("DEFECT: constrained dofs do not hold their prescribed value after Solve().")
    sys.exit(1)
print("no defect")
sys.exit(0)
