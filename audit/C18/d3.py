"""C18 / finding 3 -- HolzapfelOgden: the public attributes T1 / T2 (fibre and sheet directions) are
normalised by the constructor only.  Assigning a direction afterwards (mat.T1 = ...) stores it as given,
and the invariants I4 = T1.C.T1, I6, I8 are then evaluated with a non-unit vector (the state helper
`_Get_normalized_components` expects unit vectors and does not normalise).  With the very same vector
the constructor gives a stress-free, energy-free reference configuration, the setter does not:
W(C = I) != 0 and S(C = I) != 0, and an unloaded body deforms by itself.

Reference: (i) closed form -- for a unit fibre I4(C=I) = 1, hence W = 0 and S = 0 at u = 0;
           (ii) the material built by the constructor from the same (non-unit) vector.
exit 1 when the defect shows, 0 otherwise.
"""
import contextlib
import io
import sys

import numpy as np

from EasyFEA import ElemType, MatrixType, Models, Simulations
from EasyFEA.Geoms import Domain
from EasyFEA.Models.HyperElastic import HyperElasticState

bad = False
params = dict(C0=0.3, C1=0.4, C2=0.5, C3=0.6, C4=0.7, C5=0.8, C6=0.9, C7=1.0, K=2.0, Mu1=0.2, Mu2=0.1)
f = 1.2 * np.array([1.0, 1.0, 0.0]) / np.sqrt(2)  # |f| = 1.2 : a direction, not a unit vector
s = np.array([-1.0, 1.0, 0.0])  # |s| = sqrt(2)

mesh = Domain((0, 0), (4, 1), 0.5).Mesh_2D([], ElemType.QUAD4, isOrganised=True)
ge = mesh.groupElem
ref_state = HyperElasticState(ge, np.zeros(mesh.Nn * 2), MatrixType.rigi)

mat_ctor = Models.HyperElastic.HolzapfelOgden(2, **params, T1=f, T2=s)
mat_set = Models.HyperElastic.HolzapfelOgden(2, **params, T1=np.array([1.0, 0, 0]), T2=np.array([0, 1.0, 0]))
mat_set.T1 = f
mat_set.T2 = s

print("reference configuration (u = 0): closed form W = 0, S = 0")
for name, mat in (("constructor(T1=f, T2=s)", mat_ctor), ("mat.T1 = f ; mat.T2 = s ", mat_set)):
    W = np.abs(np.asarray(mat.Compute_W(ref_state))).max()
    S = np.abs(np.asarray(mat.Compute_dWde(ref_state))).max()
    print(f"  {name}:  |T1| = {np.linalg.norm(mat.T1):.3f}   max|W| = {W:.3e}   max|S| = {S:.3e}")
    if name.startswith("mat.") and (W > 1e-8 or S > 1e-8):
        bad = True

# same direction, deformed state: both materials must give the same energy / stress
rng = np.random.default_rng(0)
state = HyperElasticState(ge, rng.normal(size=mesh.Nn * 2) * 0.02, MatrixType.rigi)
dW = np.abs(np.asarray(mat_set.Compute_W(state)) - np.asarray(mat_ctor.Compute_W(state))).max()
dS = np.abs(np.asarray(mat_set.Compute_dWde(state)) - np.asarray(mat_ctor.Compute_dWde(state))).max()
print(f"deformed state, setter vs constructor (same direction):  max|dW| = {dW:.3e}   max|dS| = {dS:.3e}")
bad |= dW > 1e-8 or dS > 1e-8


# an unloaded, clamped strip must stay where it is
def unloaded(mat):
    simu = Simulations.HyperElastic(mesh, mat, verbosity=False)
    simu.add_dirichlet(mesh.Nodes_Conditions(lambda x, y, z: x == 0), [0, 0], ["x", "y"])
    with contextlib.redirect_stdout(io.StringIO()):
        u = simu.Solve()
    return np.abs(u).max()


print("clamped strip without any load, static solve, max|u| (closed form: 0)")
for name, mat in (("constructor", mat_ctor), ("setter", mat_set)):
    try:
        umax = unloaded(mat)
        print(f"  {name:11s}: max|u| = {umax:.3e}")
        if name == "setter" and umax > 1e-8:
            bad = True
    except AssertionError as err:
        print(f"  {name:11s}: {err}")
        bad |= name == "setter"

print("\nDEFECT" if bad else "\nno defect")
sys.exit(1 if bad else 0)
