"""C18 / finding 2 -- the adaptive path-quadrature stress (Solver_Set_Stress('quadrature', energyTol=...),
operator TimeQuadratureStressTensor(..., tol=...)) cannot be evaluated for a law that carries a
per-integration-point field: HolzapfelOgden with fibre / sheet fields of shape (Ne, nPg, 3) (the way the
cardiac example of the library builds it) or an AutoDiff law with per-point `aux` fields.

__AdaptiveTimeQuadratureStressTensor evaluates the law on the *subset* of elements that is still
refining (a _StrainPathState holding C[e] of shape (Ne_sub, nPg, 3, 3)), but the law still multiplies by
its own (Ne, nPg, ...) field -> shape error as soon as the elements do not all accept the same rule.

Reference: the same uniform fibre direction given once as a (3,) vector (works) and once as a
(Ne, nPg, 3) field holding that same vector everywhere (must give the same K_e, R_e, nPts_e).
exit 1 when the defect shows, 0 otherwise.
"""
import contextlib
import io
import sys

import numpy as np

from EasyFEA import AlgoType, ElemType, MatrixType, Models, Simulations
from EasyFEA.FEM import FeArray, Operators
from EasyFEA.Geoms import Domain
from EasyFEA.Models.HyperElastic import HyperElasticState

bad = False
rng = np.random.default_rng(0)
params = dict(C0=0.3, C1=0.4, C2=0.5, C3=0.6, C4=0.7, C5=0.8, C6=0.9, C7=1.0, K=2.0, Mu1=0.2, Mu2=0.1)
f0 = np.array([1.0, 0.5, 0.2]) / np.linalg.norm([1.0, 0.5, 0.2])
s0 = np.cross(f0, [0.0, 0.0, 1.0])
s0 /= np.linalg.norm(s0)

# ---------------------------------------------------------------------------------------------
# Part A : operator level
# ---------------------------------------------------------------------------------------------
print("Part A: TimeQuadratureStressTensor(tol=1e-9), HolzapfelOgden, HEXA8 bar of 3 elements")
mesh = Domain((0, 0), (3, 1), 1.0).Mesh_Extrude([], [0, 0, 1], [1], ElemType.HEXA8, isOrganised=True)
ge = mesh.groupElem
nPg = ge.Get_gauss(MatrixType.rigi).nPg
field = lambda v: FeArray.asfearray(np.tile(v, (ge.Ne, nPg, 1)))  # noqa: E731

mat_vec = Models.HyperElastic.HolzapfelOgden(3, **params, T1=f0, T2=s0)
mat_fld = Models.HyperElastic.HolzapfelOgden(3, **params, T1=field(f0), T2=field(s0))

u_n = rng.normal(size=mesh.Nn * 3) * 0.02
du = rng.normal(size=(mesh.Nn, 3)) * 0.05
du[mesh.coord[:, 0] <= 1.0] *= 1e-3  # the first element hardly moves: it accepts a lower rule
u_1 = u_n + du.ravel()
states = [HyperElasticState(ge, u, MatrixType.rigi) for u in (u_n, (u_n + u_1) / 2, u_1)]

# the pointwise / fixed-rule operators accept the field and agree with the (3,) vector
for name, op in (
    ("pointwise", lambda m: Operators.NonLinear.SecondPiolaKirchhoffStressTensor(m, states[2])),
    ("gonzalez", lambda m: Operators.NonLinear.GonzalezStressTensor(m, *states)),
    ("quadrature nPoints=5", lambda m: Operators.NonLinear.TimeQuadratureStressTensor(m, *states, 0.5, 5)[:2]),
):
    a, b = op(mat_vec), op(mat_fld)
    print(f"  {name:22s}: field vs vector  max|dK| = {np.abs(a[0]-b[0]).max():.1e}  max|dR| = {np.abs(a[1]-b[1]).max():.1e}")

K_ref, R_ref, n_ref = Operators.NonLinear.TimeQuadratureStressTensor(mat_vec, *states, 0.5, 3, 1e-9)
print(f"  quadrature tol=1e-9, (3,) vector : ok, points per element = {n_ref}")
try:
    K_f, R_f, n_f = Operators.NonLinear.TimeQuadratureStressTensor(mat_fld, *states, 0.5, 3, 1e-9)
    err = max(np.abs(K_f - K_ref).max(), np.abs(R_f - R_ref).max())
    print(f"  quadrature tol=1e-9, (Ne,nPg,3) field: ok, points = {n_f}, max diff to reference {err:.1e}")
    bad |= err > 1e-10
except Exception as err:  # noqa: BLE001
    bad = True
    print(f"  quadrature tol=1e-9, (Ne,nPg,3) field: {type(err).__name__}: {str(err)[:150]}")

# ---------------------------------------------------------------------------------------------
# Part B : through the simulation (public Solver_Set_Stress / Solve)
# ---------------------------------------------------------------------------------------------
print("\nPart B: HyperElastic simulation, midpoint + Solver_Set_Stress('quadrature', energyTol=1e-8)")


def run(mat, nStep=3):
    simu = Simulations.HyperElastic(mesh, mat, verbosity=False)
    simu.rho = 1.0
    simu.Solver_Set_Hyperbolic_Algorithm(0.05, algo=AlgoType.midpoint)
    simu.Solver_Set_Stress("quadrature", energyTol=1e-8)
    simu.add_dirichlet(mesh.Nodes_Conditions(lambda x, y, z: x == 0), [0, 0, 0], ["x", "y", "z"])
    simu.add_volumeLoad(mesh.nodes, [-0.2], ["z"])
    with contextlib.redirect_stdout(io.StringIO()):
        for _ in range(nStep):
            simu.Solve()
    return simu.displacement


u_ref = run(mat_vec)
print(f"  fibres as (3,) vector       : ok, max|u| = {np.abs(u_ref).max():.4e}")
try:
    u_fld = run(mat_fld)
    err = np.abs(u_fld - u_ref).max()
    print(f"  fibres as (Ne,nPg,3) field  : ok, max diff to reference {err:.1e}")
    bad |= err > 1e-9
except Exception as err:  # noqa: BLE001
    bad = True
    print(f"  fibres as (Ne,nPg,3) field  : {type(err).__name__}: {str(err)[:150]}")

print("\nDEFECT" if bad else "\nno defect")
sys.exit(1 if bad else 0)
