"""C18 / finding 1 -- the 'gonzalez' energy-conserving stress stops conserving energy when the strain
increment of a step is small (|dE|^2 <= 1e-10 at a Gauss point) while the displacement increment is not
(the step contains a finite rotation).

GonzalezStressTensor builds  S_hat = s_mid + alpha*dE,  alpha = (dW - s_mid.dE)/(dE.dE), and sets
alpha = 0 where dE.dE <= eps0 = 1e-10.  Because s_mid is the stress at the midpoint *configuration*
E((u_n+u_np1)/2) = (E_n+E_np1)/2 - 1/8 grad(du)^T grad(du), the numerator is FIRST order in dE as soon
as grad(du) is finite, so alpha*dE does not vanish with dE and cannot be dropped.

Part A (operator): one step = rigid rotation by 0.3 rad of a slightly pre-strained block + a strain
         increment of 1e-6.  The documented identity  R . du = dW  is checked.
Part B (simulation): a free-flying elastic square is spun up by a body force (public API only), the
         load is removed, and the free motion is integrated with the midpoint scheme and the three stress
         options from the same state.  'quadrature' keeps KE+W to ~1e-11, 'gonzalez' follows the
         non-conserving 'pointwise' stress exactly.
exit 1 when the defect shows, 0 otherwise.
"""
import contextlib
import io
import sys

import numpy as np

from EasyFEA import AlgoType, ElemType, MatrixType, Models, Simulations
from EasyFEA.FEM import Operators
from EasyFEA.Geoms import Domain
from EasyFEA.Models.HyperElastic import HyperElasticState

bad = False

# ---------------------------------------------------------------------------------------------
# Part A : operator level,  R . du  against  dW
# ---------------------------------------------------------------------------------------------
print("Part A: GonzalezStressTensor,  internal work R.du  vs  stored-energy increment dW")
mesh = Domain((0, 0), (1, 1), 0.5).Mesh_2D([], ElemType.QUAD4, isOrganised=True)
ge = mesh.groupElem
X = mesh.coord[:, :2]
mat = Models.HyperElastic.NeoHookean(2, K=1.0)
wJ = ge.Get_weightedJacobian_e_pg(MatrixType.rigi)
asse = ge.Get_assembly_e(2)


def disp(F):
    return (X @ (F - np.eye(2)).T).ravel()


def rot(t):
    return np.array([[np.cos(t), -np.sin(t)], [np.sin(t), np.cos(t)]])


U0 = np.array([[1.002, 0.0005], [0.0005, 0.999]])  # small pre-strain (state n)
for theta, dstrain in ((0.3, 1e-3), (0.3, 1e-6), (0.0, 1e-6), (0.05, 1e-6)):
    U1 = U0 + dstrain * np.array([[1.0, 0.3], [0.3, -0.5]])
    u_n, u_1 = disp(U0), disp(rot(theta) @ U1)
    sn = HyperElasticState(ge, u_n, MatrixType.rigi)
    sm = HyperElasticState(ge, (u_n + u_1) / 2, MatrixType.rigi)
    s1 = HyperElasticState(ge, u_1, MatrixType.rigi)
    _, R = Operators.NonLinear.GonzalezStressTensor(mat, sn, sm, s1)
    work = float(np.einsum("ei,ei->", R, (u_1 - u_n)[asse]))
    dW = float(np.sum(wJ * (mat.Compute_W(s1) - mat.Compute_W(sn))))
    dE = np.asarray(s1.Compute_GreenLagrange() - sn.Compute_GreenLagrange())
    dEdE = float((dE**2).sum((-1, -2)).max())
    rel = abs(work - dW) / abs(dW)
    print(
        f"  rotation {theta:4.2f} rad, |dE|^2 = {dEdE:.1e}:  R.du = {work: .6e}   dW = {dW: .6e}"
        f"   rel. error {rel:.1e}"
    )
    if dEdE <= 1e-10 and theta > 0 and rel > 1e-2:
        bad = True

# ---------------------------------------------------------------------------------------------
# Part B : free motion of a spinning square, midpoint scheme
# ---------------------------------------------------------------------------------------------
print("\nPart B: free spinning square (NeoHookean K=1e4, rho=1, dt=1e-3), KE + W over 300 steps")
dt, nSpin, nFree = 1.0e-3, 50, 300


def run(stress):
    mesh = Domain((-0.5, -0.5), (0.5, 0.5), 0.25).Mesh_2D(
        [], ElemType.QUAD4, isOrganised=True
    )
    mat = Models.HyperElastic.NeoHookean(2, K=1.0e4)
    simu = Simulations.HyperElastic(mesh, mat, verbosity=False)
    simu.rho = 1.0
    simu.Solver_Set_Hyperbolic_Algorithm(dt, algo=AlgoType.midpoint)
    # spin-up: body force rho*a with a = 20 (-y, x)  ->  omega ~ 1 rad/s after 50 steps
    simu.add_volumeLoad(
        mesh.nodes,
        [lambda x, y, z: -20.0 * y, lambda x, y, z: 20.0 * x],
        ["x", "y"],
    )
    with contextlib.redirect_stdout(io.StringIO()):
        for _ in range(nSpin):
            simu.Solve()
        # free motion
        simu.Bc_Init()
        simu.Solver_Set_Stress(stress)
        M = simu.Get_K_C_M_F()[2]
        E, Wmax = [], 0.0
        v = simu.speed
        E.append(0.5 * float(v @ (M @ v)) + float(simu.Result("W")))
        for _ in range(nFree):
            simu.Solve()
            v = simu.speed
            W = float(simu.Result("W"))
            Wmax = max(Wmax, W)
            E.append(0.5 * float(v @ (M @ v)) + W)
    E = np.array(E)
    return np.abs(E - E[0]).max(), E[0], Wmax


res = {}
for stress in ("pointwise", "quadrature", "gonzalez"):
    try:
        dev, E0, Wmax = run(stress)
        res[stress] = dev
        print(
            f"  {stress:10s}: max|E-E0| = {dev:.3e}   ( = {dev / E0:.1e} of E0,  {dev / Wmax:.1e} of the stored energy)"
        )
    except AssertionError as err:
        print(f"  {stress:10s}: {err}")
        res[stress] = np.inf

if res["gonzalez"] > 100 * res["quadrature"]:
    bad = True
    print(
        "\n  'gonzalez' (documented: conserves KE+W exactly, for any law) loses "
        f"{res['gonzalez'] / res['quadrature']:.0f} x more energy than 'quadrature';"
        f" ratio to the non-conserving 'pointwise' stress: {res['gonzalez'] / res['pointwise']:.6f}"
    )

print("\nDEFECT" if bad else "\nno defect")
sys.exit(1 if bad else 0)
