"""Possible defect of the UNCHANGED library (C18, 'the energy vanishes with the stress in the
reference configuration').

Models.HyperElastic.HolzapfelOgden takes two directions T1 (fibre) and T2 (sheet).  Its coupling term
C6 (exp(C7 I8^2) - 1), I8 = T1.C.T2, is stress- and energy-free at C = I only when T1 is perpendicular
to T2.  Nothing in the constructor (nor in the docstring: 'direction(s) 1, used for the invariants I4
and I8') asks for that, and nothing checks it -- whereas the anisotropic *elastic* laws do refuse
non-perpendicular axes.  With a legal pair of unit, non-perpendicular directions the undeformed body
stores energy and carries a stress of the order of C6 C7 exp(C7 (T1.T2)^2):

    T1 = ex, T2 = (ex + ey)/sqrt2   ->   W(u=0) = 7.3e2,  |S(u=0)| = 1.6e4   (C6 = 3, C7 = 11)

so a HyperElastic simulation with no load and no prescribed displacement does not stay at rest.
(If perpendicular directions are meant to be a precondition the library should say so / check it.)

exit 1: W(0) != 0 or S(0) != 0 is accepted silently, exit 0: stress-free (or the input is refused).
"""

import sys
import numpy as np

from EasyFEA import ElemType, Models, MatrixType
from EasyFEA.Geoms import Domain
from EasyFEA.Models.HyperElastic._state import HyperElasticState

mesh = Domain((0, 0), (1, 1), 0.5).Mesh_Extrude([], [0, 0, 1], [2], ElemType.HEXA8, isOrganised=True)
HO = dict(C0=1.0, C1=8.0, C2=100.0, C3=16.0, C4=30.0, C5=11.0, C6=3.0, C7=11.0, K=1e3, Mu1=0.0, Mu2=0.0)
try:
    mat = Models.HyperElastic.HolzapfelOgden(3, T1=[1, 0, 0], T2=[1, 1, 0], **HO)
except (AssertionError, ValueError) as err:
    print("ok, non-perpendicular directions are refused:", err)
    sys.exit(0)
state = HyperElasticState(mesh.groupElem, np.zeros(mesh.Nn * 3), MatrixType.rigi)
W0 = float(np.abs(mat.Compute_W(state)).max())
S0 = float(np.abs(mat.Compute_dWde(state)).max())
print(f"reference configuration: max|W| = {W0:.3e}, max|S| = {S0:.3e}")
if W0 > 1e-9 or S0 > 1e-9:
    print("DEFECT: the reference configuration is neither energy free nor stress free")
    sys.exit(1)
sys.exit(0)
