"""Defect of the UNCHANGED library (C18, path-quadrature operator; legal input, wrong behaviour).

Operators.NonLinear.TimeQuadratureStressTensor with `tol` set (what Solver_Set_Stress(quadrature,
energyTol=...) runs) refines the Clenshaw-Curtis rule element by element: after the first level it
evaluates the law on the SUBSET of elements that are still refining, through
_StrainPathState._sliced(state_n, (C_n + s dC)[e]).  Only C is restricted to the subset; a law that
carries per-Gauss-point fields of its own -- HolzapfelOgden with fibre / sheet directions given as
(Ne, nPg, 3) fields (the documented way to describe a heart, tests/Models/autodiff_test.py
test_holzapfel_ogden_accepts_fibre_fields), or Models.HyperElastic.AutoDiff with `aux` fields --
still multiplies its (Ne, nPg) fields with the (Ne_active, nPg) invariants:
    ValueError: operands could not be broadcast together with shapes (16,8) (2,8)
as soon as the elements do not all accept the same level.  With uniform (3,) directions, or with
the fixed rule (tol=None), the same step is assembled without complaint.

exit 1: the defect is present (the adaptive operator raises), exit 0: it returns (K_e, R_e, nPts_e).
"""

import sys
import numpy as np

from EasyFEA import ElemType, Models, MatrixType
from EasyFEA.Geoms import Domain
from EasyFEA.FEM import FeArray, Operators
from EasyFEA.Models.HyperElastic._state import HyperElasticState

mesh = Domain((0, 0), (2, 1), 0.5).Mesh_Extrude([], [0, 0, 1], [2], ElemType.HEXA8, isOrganised=True)
ge = mesh.groupElem
rng = np.random.default_rng(0)
u0 = rng.normal(0, 0.02, mesh.Nn * 3)
u1 = u0 + rng.normal(0, 0.05, mesh.Nn * 3) * np.repeat(mesh.coord[:, 0], 3)  # step grows with x
states = [HyperElasticState(ge, u, MatrixType.rigi) for u in (u0, (u0 + u1) / 2, u1)]
assert min(s.Compute_J().min() for s in states) > 0

Ne, nPg, _ = states[0]._GetDims()
ang = np.linspace(-1, 1, Ne)[:, None] * np.ones((1, nPg))
zero = np.zeros_like(ang)
T1 = FeArray.asfearray(np.stack([np.cos(ang), np.sin(ang), zero], -1))
T2 = FeArray.asfearray(np.stack([-np.sin(ang), np.cos(ang), zero], -1))
HO = dict(C0=1.0, C1=8.0, C2=100.0, C3=16.0, C4=30.0, C5=11.0, C6=3.0, C7=11.0, K=1e3, Mu1=0.0, Mu2=0.0)
field = Models.HyperElastic.HolzapfelOgden(3, T1=T1, T2=T2, **HO)

# the fixed rule accepts the fibre fields
Operators.NonLinear.TimeQuadratureStressTensor(field, *states, 0.5, 5)

try:
    _, _, nPts_e = Operators.NonLinear.TimeQuadratureStressTensor(field, *states, 0.5, 3, tol=1e-8)
except ValueError as err:
    print("DEFECT: adaptive strain-path quadrature with per-Gauss-point fibre fields raises:", err)
    sys.exit(1)
print("ok, points per element:", nPts_e)
sys.exit(0)
