"""Defect of the UNCHANGED library (C18, kinematics / invariants of HyperElasticState).

HyperElasticState has a public setter `state.matrixType = ...`, but every quantity of the state
(Compute_F, _C, _I1.._I3, dI2dC, dI3dC, d2I3dC, De, and the block operator B memoised by the
NonLinear operators) is cached on the object under a key that does not contain the matrix type, and
the setter does not clear that cache.  After  W(state)  has been evaluated with the 'rigi' rule,

    state.matrixType = MatrixType.mass ; material.Compute_W(state)

silently returns the values at the 'rigi' Gauss points again (shape (Ne, 3) on TRI6 while
state._GetDims() announces 6 points): energy, stress and tangent of the same live state then belong
to different integration rules depending on the order in which they were first asked for.

exit 1: stale values are returned after the matrix type was changed, exit 0: values follow the rule.
"""

import sys
import numpy as np

from EasyFEA import ElemType, Models, MatrixType
from EasyFEA.Geoms import Domain
from EasyFEA.Models.HyperElastic._state import HyperElasticState

mesh = Domain((0, 0), (1, 1), 0.5).Mesh_2D([], ElemType.TRI6)
ge = mesh.groupElem
u = np.random.default_rng(0).normal(0, 0.02, mesh.Nn * 2)
mat = Models.HyperElastic.NeoHookean(2, K=1.0)

fresh = np.asarray(mat.Compute_W(HyperElasticState(ge, u, MatrixType.mass)))

state = HyperElasticState(ge, u, MatrixType.rigi)
mat.Compute_W(state)
state.matrixType = MatrixType.mass
reused = np.asarray(mat.Compute_W(state))

print("W on a fresh 'mass' state:", fresh.shape, " on the re-typed state:", reused.shape)
if reused.shape != fresh.shape or not np.allclose(reused, fresh, rtol=1e-12, atol=0):
    print("DEFECT: the state keeps the values of the previous integration rule after matrixType was set")
    sys.exit(1)
sys.exit(0)
