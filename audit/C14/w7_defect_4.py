"""DEFECT (unchanged library) - C14: after simu.Save(folder) the mesh history of a simulation holds
file paths.  Set_Iter(i) of an iteration computed on another mesh of that history then loads the
mesh from its file (_Simu.__Update_mesh -> Load_Mesh) and makes it the simulation's mesh WITHOUT
registering the simulation as its observer (the mesh setter does `mesh._Add_observer(self)`,
__Update_mesh does not, and a mesh is saved as raw connectivity / coordinates, so it comes back with
no observer at all).  From then on the public motions of simu.mesh (Translate, Rotate, Symmetry,
mesh.coord = ...) are not heard: the assembled matrices of the unmoved mesh are returned by
Get_K_C_M_F() and used by Solve().

The same history without the Save() (meshes kept in memory) behaves correctly, and so does a new
simulation built on the moved mesh.

exit 1 when the defect is present, 0 otherwise.
"""

import sys
import shutil
import tempfile
import numpy as np

from EasyFEA import Models, Simulations, ElemType
from EasyFEA.Geoms import Domain, Point

L, H = 2.0, 1.0


def new_mesh(n):
    return Domain(Point(), Point(L, H), H / n).Mesh_2D([], ElemType.TRI3, isOrganised=True)


def new_mat():
    return Models.Elastic.Isotropic(2, E=100.0, v=0.3, planeStress=True, thickness=0.5)


def load_and_solve(simu):
    mesh = simu.mesh
    simu.Bc_Init()
    simu.add_dirichlet(mesh.Nodes_Conditions(lambda x, y, z: x == x.min()), [0, 0], ["x", "y"])
    simu.add_lineLoad(mesh.Nodes_Conditions(lambda x, y, z: x == x.max()), [1.0], ["y"])
    return simu.Solve().copy()


def history(withSave: bool):
    simu = Simulations.Elastic(new_mesh(2), new_mat())
    load_and_solve(simu)
    simu.Save_Iter()
    simu.mesh = new_mesh(3)
    load_and_solve(simu)
    simu.Save_Iter()
    if withSave:
        folder = tempfile.mkdtemp(prefix="c14_defect4_")
        tmpFolders.append(folder)
        simu.Save(folder)
    simu.Set_Iter(0)  # back on the first mesh
    K_before = simu.Get_K_C_M_F()[0]
    # stretch the mesh in x by 2 (public coordinate setter): K must change
    coord = simu.mesh.coord
    coord[:, 0] *= 2
    simu.mesh.coord = coord
    K_after = simu.Get_K_C_M_F()[0]
    u = load_and_solve(simu)
    return simu, K_before, K_after, u


# fresh simulation on the stretched mesh
meshS = new_mesh(2)
coord = meshS.coord
coord[:, 0] *= 2
meshS.coord = coord
fresh = Simulations.Elastic(meshS, new_mat())
K_fresh = fresh.Get_K_C_M_F()[0]
u_fresh = load_and_solve(fresh)

bad = False
tmpFolders = []
for withSave in (False, True):
    simu, K_before, K_after, u = history(withSave)
    errK = abs(K_after - K_fresh).max() / abs(K_fresh).max()
    erru = abs(u - u_fresh).max() / abs(u_fresh).max()
    unchanged = abs(K_after - K_before).max() == 0.0
    print(f"history {'with' if withSave else 'without'} Save(): observers of simu.mesh = {len(simu.mesh.observers)}, "
          f"K unchanged by the stretch: {unchanged}, |K - K_fresh| = {errK:.2e}, |u - u_fresh| = {erru:.2e}")
    if errK > 1e-9 or erru > 1e-9:
        bad = True

for folder in tmpFolders:
    shutil.rmtree(folder, ignore_errors=True)

if bad:
    print("DEFECT: the mesh brought back by Set_Iter after Save() is not observed: its motions leave stale matrices.")
    sys.exit(1)
sys.exit(0)
