"""C14 / finding 1 - replacing the mesh of a simulation (`simu.mesh = newMesh`) keeps the
per-Gauss-point state of the old mesh:

  (a) Simulations.InElastic keeps the committed internal variables (plastic strain, p):
      - new mesh with the same number of elements  -> silently wrong stresses,
      - new mesh with another number of elements   -> ValueError (cannot be solved any more);
  (b) Simulations.PhaseField (History solver) keeps the history field psi+ when the new mesh
      has the same (Ne, nPg): damage appears in a virgin part under a vanishing load.

Reference: a new simulation built directly on the new mesh, and the closed forms
  (a) uniaxial tension in plane strain, elastic range:  Sxx = E / (1 - v^2) * eps
  (b) first staggered pass from u = 0:                   damage = 0

exit 1 when the defect manifests, 0 otherwise.
"""

import contextlib
import io
import sys

import numpy as np

from EasyFEA import ElemType, Models, Simulations
from EasyFEA.Geoms import Domain, Point


def quiet(function, *args, **kwargs):
    with contextlib.redirect_stdout(io.StringIO()):
        return function(*args, **kwargs)


defect = False

# --------------------------------------------------------------------------------------
# (a) InElastic
# --------------------------------------------------------------------------------------
L, H = 10.0, 2.0
E, v, sigma_y, Hm = 1000.0, 0.3, 10.0, 100.0


def behavior():
    return Models.InElastic.Behavior(
        2,
        Models.Elastic.Isotropic(3, E=E, v=v),
        yieldSurface=Models.InElastic.Yield.VonMises(sigma_y),
        hardening=Models.InElastic.IsotropicHardening.Linear(Hm),
    )  # plane strain


def part(meshSize):
    return Domain(Point(0, 0), Point(L, H), meshSize).Mesh_2D([], ElemType.QUAD4)


def pull(simu, delta):
    """uniaxial tension: ux = 0 on x = 0, uy = 0 at the origin, ux = delta on x = L"""
    mesh = simu.mesh
    simu.Bc_Init()
    simu.add_dirichlet(mesh.Nodes_Conditions(lambda x, y, z: x == 0), [0], ["x"])
    simu.add_dirichlet(
        mesh.Nodes_Conditions(lambda x, y, z: (x == 0) & (y == 0)), [0], ["y"]
    )
    simu.add_dirichlet(mesh.Nodes_Conditions(lambda x, y, z: x == L), [delta], ["x"])
    quiet(simu.Solve)
    simu.Save_Iter()
    return simu.Result("Sxx", nodeValues=False)


simu = Simulations.InElastic(part(1.0), behavior())
Sxx = pull(simu, 0.05 * L)  # 5 % strain: far in the plastic range
p = simu.Result("p", nodeValues=False)
print(f"(a) first part, 5 % strain : Sxx = {Sxx.mean():.4f}, cumulated plastic strain p = {p.mean():.4f}")

# a new (virgin) part replaces the first one - same generator, hence the same number of elements
simu.mesh = part(1.0)
delta = 1e-3 * L
Sxx_changed = pull(simu, delta)
p_changed = simu.Result("p", nodeValues=False)

fresh = Simulations.InElastic(part(1.0), behavior())
Sxx_fresh = pull(fresh, delta)
Sxx_exact = E / (1 - v**2) * 1e-3

print(f"    new part, 0.1 % strain (elastic range), closed form Sxx = {Sxx_exact:.6f}")
print(f"      fresh simulation            : Sxx = {Sxx_fresh.mean():.6f}  p = {fresh.Result('p', nodeValues=False).max():.3e}")
print(f"      simulation after simu.mesh= : Sxx = {Sxx_changed.mean():.6f}  p = {p_changed.max():.3e}")
assert abs(Sxx_fresh - Sxx_exact).max() < 1e-8 * Sxx_exact, "the reference itself is off"
if abs(Sxx_changed - Sxx_exact).max() > 1e-6 * Sxx_exact:
    print("    -> DEFECT: the internal variables of the replaced mesh are still used")
    defect = True

# a finer part: the state of the old mesh does not even have the right shape
simu.mesh = part(0.5)
try:
    Sxx_fine = pull(simu, delta)
    ok = abs(Sxx_fine - Sxx_exact).max() < 1e-6 * Sxx_exact
    print(f"    finer part: Sxx = {Sxx_fine.mean():.6f} ({'ok' if ok else 'WRONG'})")
    defect |= not ok
except Exception as err:  # noqa: BLE001
    print(f"    finer part -> DEFECT: Solve raises {type(err).__name__}: {str(err)[:90]}")
    defect = True

# --------------------------------------------------------------------------------------
# (b) PhaseField, History solver
# --------------------------------------------------------------------------------------


def square(meshSize=0.1):
    return Domain(Point(0, 0), Point(1, 1), meshSize).Mesh_2D([], ElemType.TRI3)


def pfm():
    mat = Models.Elastic.Isotropic(2, E=210e3, v=0.3, planeStress=False)
    return Models.PhaseField(mat, "Miehe", "AT2", Gc=2.7, l0=0.1)  # solver = History


def load(simu, uy):
    mesh = simu.mesh
    simu.Bc_Init()
    simu.add_dirichlet(mesh.Nodes_Conditions(lambda x, y, z: y == 0), [0, 0], ["x", "y"])
    simu.add_dirichlet(mesh.Nodes_Conditions(lambda x, y, z: y == 1), [uy], ["y"])
    _, d, _ = simu.Solve()  # one staggered pass: damage (from the current u), then displacement
    simu.Save_Iter()
    return d


simu = Simulations.PhaseField(square(), pfm())
load(simu, 6e-3)  # stores a large psi+ in the history field
d1 = load(simu, 6e-3)
print(f"(b) first part : max damage = {d1.max():.4f}")

simu.mesh = square()  # a new (virgin) part with the same number of elements
d_changed = load(simu, 1e-6)
fresh = Simulations.PhaseField(square(), pfm())
d_fresh = load(fresh, 1e-6)
print("    new part, first pass from u = 0, closed form: damage = 0")
print(f"      fresh simulation            : max damage = {d_fresh.max():.3e}")
print(f"      simulation after simu.mesh= : max damage = {d_changed.max():.3e}")
if abs(d_changed).max() > 1e-8:
    print("    -> DEFECT: the history field of the replaced mesh is still used")
    defect = True

simu.mesh = square(0.2)  # another number of elements: the history is dropped (shape test)
print(f"      (new part with another Ne   : max damage = {load(simu, 1e-6).max():.3e} - correct)")

print("DEFECT" if defect else "no defect")
sys.exit(1 if defect else 0)
