"""C14 / finding 3 - Simulations.Beam binds the beam formulation (Euler-Bernoulli or Timoshenko
element classes) to the mesh once, in `__init__`; the two public changes that need a new
conversion do not perform it:

  (A) `simu.mesh = newMesh` (mesh replacement): the base-class setter stores the plain SEG mesh,
      the next Solve dies on a bare `assert isinstance(groupElem, (_Timoshenko, _EulerBernoulli))`;
  (B) `simu.useTimoshenko = True` (a declared, validated parameter that raises Need_Update):
      K is re-assembled with the Euler-Bernoulli elements, the solution is the Euler-Bernoulli
      one, and Result("Ty") raises a TypeError.

Reference: cantilever with a tip force, closed forms
    Euler-Bernoulli : uy(L) = F L^3 / (3 E Iz)
    Timoshenko      : uy(L) = F L^3 / (3 E Iz) + F L / (k G A)
and a new simulation built directly in the final configuration.
exit 1 when the defect manifests, 0 otherwise.
"""

import contextlib
import io
import sys

import numpy as np

from EasyFEA import ElemType, Mesher, Models, Simulations
from EasyFEA.Geoms import Domain, Line, Point

L, b, h = 30.0, 13.0, 13.0  # short beam: the shear deflection is visible
E, v, F = 210000.0, 0.3, -800.0
Iz, A, G = b * h**3 / 12, b * h, E / (2 * (1 + v))

p1, p2 = Point(), Point(x=L)


def quiet(function, *args, **kwargs):
    with contextlib.redirect_stdout(io.StringIO()):
        return function(*args, **kwargs)


def new_beam():
    section = Mesher().Mesh_2D(Domain(Point(-b / 2, -h / 2), Point(b / 2, h / 2)))
    return Models.Beam.Isotropic(2, Line(p1, p2, L / 10), section, E, v)


def new_mesh(beam, nL: int):
    beam.line.meshSize = L / nL
    return Mesher().Mesh_Beams([beam], elemType=ElemType.SEG3)


def new_simu(nL: int, useTimoshenko: bool):
    beam = new_beam()
    mesh = new_mesh(beam, nL)
    simu = quiet(
        Simulations.Beam, mesh, Models.Beam.BeamStructure([beam]), useTimoshenko=useTimoshenko
    )
    return simu, beam


def tip(simu) -> float:
    """clamps x = 0, loads x = L, solves, returns uy(L)"""
    mesh = simu.mesh
    simu.Bc_Init()
    simu.add_dirichlet(mesh.Nodes_Point(p1), [0] * simu.Get_dof_n(), simu.Get_unknowns())
    nodeL = mesh.Nodes_Point(p2)
    simu.add_neumann(nodeL, [F], ["y"])
    simu.Solve()
    return float(simu.Result("uy")[nodeL][0])


defect = False

# ------------------------------------------------------------------ (A) mesh replacement
simu, beam = new_simu(10, False)
uy_EB = F * L**3 / (3 * E * Iz)
print(f"(A) Euler-Bernoulli cantilever, closed form uy(L) = {uy_EB:.8f}")
print(f"    10 elements                    : uy(L) = {tip(simu):.8f}")

fresh, _ = new_simu(20, False)
uy_fresh = tip(fresh)
print(f"    fresh simulation, 20 elements  : uy(L) = {uy_fresh:.8f}")
assert abs(uy_fresh - uy_EB) < 1e-7 * abs(uy_EB)

simu.mesh = new_mesh(beam, 20)  # same beam (same element tag), finer mesh
try:
    uy_changed = tip(simu)
    print(f"    after simu.mesh = finer mesh   : uy(L) = {uy_changed:.8f}")
    if abs(uy_changed - uy_EB) > 1e-7 * abs(uy_EB):
        print("    -> DEFECT: wrong deflection")
        defect = True
except Exception as err:  # noqa: BLE001
    print(f"    after simu.mesh = finer mesh   : Solve raises {type(err).__name__}('{err}')")
    print("    -> DEFECT: the replaced mesh is not converted into beam elements, the simulation is unusable")
    defect = True

# ------------------------------------------------------------------ (B) useTimoshenko
simu, beam = new_simu(10, False)
tip(simu)
k = beam._ky
uy_T = uy_EB + F * L / (k * G * A)
print(f"(B) closed forms: Euler-Bernoulli {uy_EB:.8f}, Timoshenko (k = {k:.4f}) {uy_T:.8f}")

fresh, _ = new_simu(10, True)
uy_fresh = tip(fresh)
Ty_fresh = fresh.Result("Ty", nodeValues=False)
print(f"    fresh simulation, useTimoshenko=True : uy(L) = {uy_fresh:.8f}, Ty = {Ty_fresh.mean():.3f}")
assert abs(uy_fresh - uy_T) < 1e-6 * abs(uy_T)

simu.useTimoshenko = True
print(f"    simu.useTimoshenko = True -> needUpdate = {simu.needUpdate}")
uy_changed = tip(simu)
print(f"    changed simulation                   : uy(L) = {uy_changed:.8f}")
if abs(uy_changed - uy_T) > 1e-6 * abs(uy_T):
    print(f"    -> DEFECT: still the Euler-Bernoulli solution (relative gap {abs(uy_changed - uy_T) / abs(uy_T):.2e})")
    defect = True
try:
    Ty = simu.Result("Ty", nodeValues=False)
    print(f"    changed simulation                   : Ty = {np.mean(Ty):.3f}")
except Exception as err:  # noqa: BLE001
    print(f"    changed simulation                   : Result('Ty') raises {type(err).__name__}: {err}")
    defect = True

print("DEFECT" if defect else "no defect")
sys.exit(1 if defect else 0)
