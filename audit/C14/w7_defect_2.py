"""DEFECT (unchanged library) - C14: replacing the cross-section of a beam (`beam.section = newMesh`,
a public setter that calls Need_Update and notifies the observing simulations) keeps the shear
correction factors `_ky`, `_kz` computed ONCE in `_Beam.__init__` from the first section
(EasyFEA/Models/Beam/_beam.py: `self._ky = self._Get_shear_correction_factor("y")` only in
__init__).  A Timoshenko simulation reassembled after the change uses k A G with the new area but
the shear factor of the old shape; a beam constructed directly with the new section gets the factor
of that section (5/6 for a rectangle, 6/7 ~ 0.857 for a disc, ~0.4-0.5 for an I or a thin-walled
tube ...).

exit 1 when the defect is present, 0 otherwise.
"""

import sys
import numpy as np

from EasyFEA import Models, Simulations, Mesher, ElemType
from EasyFEA.Geoms import Domain, Point, Line

L, nL = 40.0, 8
E, v = 210000.0, 0.3
F = -800.0
p1, p2 = Point(), Point(x=L)


def rect_section():
    b, h = 13.0, 13.0
    return Mesher().Mesh_2D(Domain(Point(-b / 2, -h / 2), Point(b / 2, h / 2), 13 / 6), elemType=ElemType.TRI6)


def tube_section():
    # thin-walled square tube: shear factor far from 5/6
    ext = Domain(Point(-10, -10), Point(10, 10), 1.0)
    hole = Domain(Point(-9, -9), Point(9, 9), 1.0, isFilled=False)
    return Mesher().Mesh_2D(ext, [hole], ElemType.TRI6)


def solve(beam):
    mesh = Mesher().Mesh_Beams([beam], elemType=ElemType.SEG3)
    simu = Simulations.Beam(mesh, Models.Beam.BeamStructure([beam]), useTimoshenko=True, verbosity=False)
    return simu


def load_and_solve(simu):
    mesh = simu.mesh
    simu.Bc_Init()
    simu.add_dirichlet(mesh.Nodes_Point(p1), [0] * simu.Get_dof_n(), simu.Get_unknowns())
    simu.add_neumann(mesh.Nodes_Point(p2), [F], ["y"])
    simu.Solve()
    uy = simu.Result("uy")
    return uy[np.argmax(np.abs(uy))]


beam = Models.Beam.Isotropic(2, Line(p1, p2, L / nL), rect_section(), E, v)
live = solve(beam)
load_and_solve(live)
beam.section = tube_section()  # public setter, notifies the simulation
tip_live = load_and_solve(live)

beam2 = Models.Beam.Isotropic(2, Line(p1, p2, L / nL), tube_section(), E, v)
fresh = solve(beam2)
tip_fresh = load_and_solve(fresh)

print(f"area / Iz    : live {beam.area:.6g} / {beam.Iz:.6g}   fresh {beam2.area:.6g} / {beam2.Iz:.6g}")
print(f"shear factor : live {beam._ky:.6f}   fresh {beam2._ky:.6f}")
err = abs(tip_live - tip_fresh) / abs(tip_fresh)
print(f"tip deflection: live {tip_live:.6e}  fresh {tip_fresh:.6e}  (relative difference {err:.2e})")

if err > 1e-6:
    print("DEFECT: beam.section = ... keeps the shear correction factor of the previous section.")
    sys.exit(1)
sys.exit(0)
