"""DEFECT (unchanged library) - C14: Simulations.Beam.useTimoshenko is a public, writable parameter
(`useTimoshenko: bool = _params.BoolParameter()`, EasyFEA/Simulations/_beam.py) whose assignment
raises the simulation's update flag, but the beam elements are chosen in the constructor / mesh
setter only.  After

    simu = Simulations.Beam(mesh, structure)          # Euler-Bernoulli
    simu.useTimoshenko = True

the mesh still holds EULER_BERNOULLI elements: K and the solution are those of the Euler-Bernoulli
theory although the simulation now says (and Result("Ty") assumes) Timoshenko.  A new simulation
constructed with useTimoshenko=True gives another K and another deflection (shear flexibility of a
short beam).  The converse assignment (True -> False) behaves the same way.

exit 1 when the defect is present, 0 otherwise.
"""

import sys
import numpy as np

from EasyFEA import Models, Simulations, Mesher, ElemType
from EasyFEA.Geoms import Domain, Point, Line

L, nL = 40.0, 8  # short and deep beam: the shear term matters
b, h = 13.0, 13.0
E, v = 210000.0, 0.3
F = -800.0


def new_model():
    mesher = Mesher()
    section = mesher.Mesh_2D(Domain(Point(-b / 2, -h / 2), Point(b / 2, h / 2)))
    p1, p2 = Point(), Point(x=L)
    beam = Models.Beam.Isotropic(2, Line(p1, p2, L / nL), section, E, v)
    mesh = mesher.Mesh_Beams([beam], elemType=ElemType.SEG3)
    return mesh, Models.Beam.BeamStructure([beam]), p1, p2


def load_and_solve(simu, p1, p2):
    mesh = simu.mesh
    simu.Bc_Init()
    simu.add_dirichlet(mesh.Nodes_Point(p1), [0] * simu.Get_dof_n(), simu.Get_unknowns())
    simu.add_neumann(mesh.Nodes_Point(p2), [F], ["y"])
    simu.Solve()
    K = simu.Get_K_C_M_F()[0]
    return simu.Result("uy"), K


mesh, structure, p1, p2 = new_model()
live = Simulations.Beam(mesh, structure, useTimoshenko=False, verbosity=False)
load_and_solve(live, p1, p2)
live.useTimoshenko = True  # public parameter
uy_live, K_live = load_and_solve(live, p1, p2)

mesh, structure, p1, p2 = new_model()
fresh = Simulations.Beam(mesh, structure, useTimoshenko=True, verbosity=False)
uy_fresh, K_fresh = load_and_solve(fresh, p1, p2)

print("elements of the live simulation :", type(live.mesh.groupElem).__name__)
print("elements of the fresh simulation:", type(fresh.mesh.groupElem).__name__)
tip_live, tip_fresh = uy_live[np.argmax(np.abs(uy_live))], uy_fresh[np.argmax(np.abs(uy_fresh))]
err_u = abs(tip_live - tip_fresh) / abs(tip_fresh)
err_K = abs(K_live - K_fresh).max() / abs(K_fresh).max() if K_live.shape == K_fresh.shape else np.inf
print(f"tip deflection: live {tip_live:.6e}  fresh {tip_fresh:.6e}  (relative difference {err_u:.2e})")
print(f"stiffness matrix: relative difference {err_K:.2e}")

if err_u > 1e-6 or err_K > 1e-6:
    print("DEFECT: simu.useTimoshenko = True leaves the Euler-Bernoulli elements, matrices and solution in place.")
    sys.exit(1)
sys.exit(0)
