"""DEFECT candidate (unchanged library) - C14: the cross-section of a beam is a Mesh that
`beam.section` hands out by reference, and the beam reads area / Iy / Iz / J from it at every
assembly - but neither the beam nor the Beam simulation observes that mesh.  A public motion of the
section (section.Rotate(90): a b x h rectangle laid flat, or section.coord = 2 * section.coord)
changes area and inertias reported by the beam at once, while the simulation keeps its assembled K:
the next Solve() still returns the deflection of the previous section.  Any later unrelated change
(beam.E = beam.E) suddenly brings the new section in.

(The simulation observes the beams; a beam does not observe its section.  Stated in the terms of
C14: a stale K survives a change that invalidates it.)

exit 1 when the defect is present, 0 otherwise.
"""

import sys
import numpy as np

from EasyFEA import Models, Simulations, Mesher, ElemType
from EasyFEA.Geoms import Domain, Point, Line

L, nL = 400.0, 8
b, h = 10.0, 30.0
E, v = 210000.0, 0.3
F = -800.0
p1, p2 = Point(), Point(x=L)


def new(bb, hh):
    mesher = Mesher()
    section = mesher.Mesh_2D(Domain(Point(-bb / 2, -hh / 2), Point(bb / 2, hh / 2)))
    beam = Models.Beam.Isotropic(2, Line(p1, p2, L / nL), section, E, v)
    mesh = mesher.Mesh_Beams([beam], elemType=ElemType.SEG2)
    simu = Simulations.Beam(mesh, Models.Beam.BeamStructure([beam]), verbosity=False)
    return beam, simu


def load_and_solve(simu):
    mesh = simu.mesh
    simu.Bc_Init()
    simu.add_dirichlet(mesh.Nodes_Point(p1), [0] * simu.Get_dof_n(), simu.Get_unknowns())
    simu.add_neumann(mesh.Nodes_Point(p2), [F], ["y"])
    simu.Solve()
    uy = simu.Result("uy")
    return uy[np.argmax(np.abs(uy))]


beam, live = new(b, h)
tip_before = load_and_solve(live)
beam.section.Rotate(90)  # the section now lies flat: Iz = h b^3 / 12
tip_live = load_and_solve(live)

beam2, fresh = new(h, b)  # constructed directly with the flat section
tip_fresh = load_and_solve(fresh)

print(f"Iz reported by the beams: live {beam.Iz:.6g}   fresh {beam2.Iz:.6g}")
print(f"tip deflection: before the rotation {tip_before:.6e}")
print(f"                live after rotation {tip_live:.6e}   fresh {tip_fresh:.6e}")
err = abs(tip_live - tip_fresh) / abs(tip_fresh)
beam.E = beam.E  # unrelated notification
tip_late = load_and_solve(live)
print(f"                live after beam.E = beam.E {tip_late:.6e}")

if err > 1e-6:
    print(f"DEFECT: the simulation kept the matrices of the section before its rotation (relative difference {err:.2e}).")
    sys.exit(1)
sys.exit(0)
