"""C14 / finding 2 - `Mesh.inDim` (the dimension of the space the mesh lies in) is computed once
in `Mesh.__init__` and never again, although Translate / Rotate / Symmetry / `mesh.coord = ...`
can take a planar mesh out of the (x, y) plane or bring it back into it.

Consequences checked here
  (A) Simulations.WeakForms multiplies the element matrices by
      `1.0 if mesh.inDim == 3 else thickness`: after `mesh.Translate(dz=1)` the simulation is
      flagged for update, re-assembles, and still applies the thickness, whereas a new
      simulation built on the same mesh at z = 1 does not (factor 1 / thickness on K);
  (B) the reverse motion (a mesh built at z = 1 brought to z = 0) keeps factor 1;
  (C) the guard `_Simu._Update -> _Check_dim_mesh_material()` never fires: a 2D elastic
      simulation accepts a mesh rotated out of its plane, a new simulation refuses it
      (printed only, the exit code is decided by A and B).

Independent reference for K: P1 Laplacian assembled by hand with numpy.
exit 1 when the defect manifests, 0 otherwise.
"""

import sys

import numpy as np

from EasyFEA import ElemType, Models, Simulations
from EasyFEA.FEM import BiLinearForm, Field, GroupElemFactory, Mesh
from EasyFEA.Geoms import Domain

THICKNESS = 0.5


def new_mesh_from(mesh: Mesh, coord: np.ndarray) -> Mesh:
    """A brand new Mesh with the connectivity of `mesh` and the coordinates `coord`."""
    return Mesh(
        {
            elemType: GroupElemFactory.Create(elemType, groupElem.connect, coord)
            for elemType, groupElem in mesh.dict_groupElem.items()
        }
    )


@BiLinearForm
def laplacian(u: Field, v: Field):
    return u.grad.dot(v.grad)


def weakforms_simu(mesh: Mesh):
    field = Field(mesh.groupElem, 1)
    model = Models.WeakForms(field, laplacian, thickness=THICKNESS)
    return Simulations.WeakForms(mesh, model)


def K_numpy(mesh: Mesh) -> np.ndarray:
    """int grad(Ni).grad(Nj) dS on flat triangles, whatever the plane they lie in."""
    coord, connect = mesh.coord, mesh.connect
    K = np.zeros((mesh.Nn, mesh.Nn))
    for nodes in connect:
        p0, p1, p2 = coord[nodes]
        e1, e2 = p1 - p0, p2 - p0
        n = np.cross(e1, e2)
        area = np.linalg.norm(n) / 2
        n = n / np.linalg.norm(n)
        # gradient of the barycentric function of node i: n x (opposite edge) / (2 area)
        grads = np.array(
            [np.cross(n, p2 - p1), np.cross(n, p0 - p2), np.cross(n, p1 - p0)]
        ) / (2 * area)
        K[np.ix_(nodes, nodes)] += area * grads @ grads.T
    return K


def relDiff(A, B) -> float:
    A = A.toarray() if hasattr(A, "toarray") else A
    B = B.toarray() if hasattr(B, "toarray") else B
    return np.abs(A - B).max() / np.abs(B).max()


defect = False

# ------------------------------------------------------------------ (A) out of the plane
mesh = Domain((0, 0), (1, 1), 0.5).Mesh_2D([], ElemType.TRI3)
simu = weakforms_simu(mesh)
K0 = simu.Get_K_C_M_F()[0]
assert relDiff(K0, THICKNESS * K_numpy(mesh)) < 1e-12  # in the plane: thickness * K

mesh.Translate(dz=1.0)
assert simu.needUpdate  # the simulation has been told
K_changed = simu.Get_K_C_M_F()[0]

meshNew = new_mesh_from(mesh, mesh.coord)  # the same mesh, built directly at z = 1
K_fresh = weakforms_simu(meshNew).Get_K_C_M_F()[0]
K_ref = K_numpy(meshNew)

print("(A) planar mesh translated to z = 1")
print(f"    mesh.inDim = {mesh.inDim} (groupElem.inDim = {mesh.groupElem.inDim}), new mesh with the same coordinates: inDim = {meshNew.inDim}")
print(f"    fresh simulation   : |K - 1.0 * K_numpy| / |K_numpy| = {relDiff(K_fresh, K_ref):.2e}")
print(f"    changed simulation : |K - K_fresh| / |K_fresh|       = {relDiff(K_changed, K_fresh):.2e}"
      f"   (|K - {THICKNESS} * K_numpy| = {relDiff(K_changed, THICKNESS * K_ref):.2e})")
if relDiff(K_changed, K_fresh) > 1e-9:
    print("    -> DEFECT: stale inDim, the thickness is still applied")
    defect = True

# ------------------------------------------------------------------ (B) back into the plane
coordUp = Domain((0, 0), (1, 1), 0.5).Mesh_2D([], ElemType.TRI3).coord + [0, 0, 1.0]
mesh = new_mesh_from(Domain((0, 0), (1, 1), 0.5).Mesh_2D([], ElemType.TRI3), coordUp)
simu = weakforms_simu(mesh)
simu.Get_K_C_M_F()
mesh.Translate(dz=-1.0)
K_changed = simu.Get_K_C_M_F()[0]
meshNew = new_mesh_from(mesh, mesh.coord)
K_fresh = weakforms_simu(meshNew).Get_K_C_M_F()[0]
print("(B) mesh built at z = 1 translated to z = 0")
print(f"    mesh.inDim = {mesh.inDim} (groupElem.inDim = {mesh.groupElem.inDim}), new mesh with the same coordinates: inDim = {meshNew.inDim}")
print(f"    fresh simulation   : |K - {THICKNESS} * K_numpy| / |.| = {relDiff(K_fresh, THICKNESS * K_numpy(meshNew)):.2e}")
print(f"    changed simulation : |K - K_fresh| / |K_fresh|      = {relDiff(K_changed, K_fresh):.2e}")
if relDiff(K_changed, K_fresh) > 1e-9:
    print("    -> DEFECT: stale inDim, the thickness is not applied")
    defect = True

try:
    Simulations.Elastic(mesh, Models.Elastic.Isotropic(2, E=1.0, v=0.3))
    print("    a 2D elastic simulation accepts the moved (now planar) mesh")
except AssertionError as err:
    print(f"    a 2D elastic simulation refuses the moved (now planar) mesh: '{err}'")

# ------------------------------------------------------------------ (C) the guard of _Simu._Update
mesh = Domain((0, 0), (1, 1), 0.5).Mesh_2D([], ElemType.TRI3)
mat = Models.Elastic.Isotropic(2, E=1.0, v=0.3)
simu = Simulations.Elastic(mesh, mat)
try:
    mesh.Rotate(90, direction=(1, 0, 0))  # now in the (x, z) plane
    accepted = True
except AssertionError:
    accepted = False
try:
    Simulations.Elastic(new_mesh_from(mesh, mesh.coord), mat)
    freshAccepted = True
except AssertionError as err:
    freshAccepted = False
    message = str(err)
print("(C) 2D elastic simulation, mesh rotated into the (x, z) plane")
print(f"    live simulation accepts the motion: {accepted}; a new simulation on that mesh is accepted: {freshAccepted}"
      + ("" if freshAccepted else f" ('{message}')"))

print("DEFECT" if defect else "no defect")
sys.exit(1 if defect else 0)
