"""C19 / d1 -- the default ("auto" = spectral) local solver silently returns an unconverged
stress for a viscoplastic (Norton / Perzyna) material with a stress exponent n >= ~4.

Von Mises + isotropic linear hardening + Norton rate law is a reducible case, so
Behavior(solver="auto") integrates it with the scalar spectral return (_spectral.Solve).
That Newton starts at theta = 0, where the slope of the rate law's inverse is unbounded,
crawls for more than its 20 iterations when n is large, and then the result is returned
with converged = True everywhere.

Reference (independent): for J2 + isotropic elasticity the backward-Euler step is the
classical radial return, one scalar equation in dGamma

    svm_trial - 3 G dG - sigma_y - H (p + dG) - sigma_0 (dG / (A dt))**(1/n) = 0

solved here with scipy.optimize.brentq.  The general Newton solver (solver="newton") is
compared as well ("both local solvers agree").
"""

import sys

import numpy as np
from scipy.optimize import brentq

from EasyFEA import Models
from EasyFEA.FEM import FeArray
from EasyFEA.Models.Elastic._laws import Isotropic

IE = Models.InElastic

E, nu, SIGMA_Y, H = 210e3, 0.3, 250.0, 2000.0
G = E / (2 * (1 + nu))
elastic = Isotropic(3, E=E, v=nu)


def fe(v):
    return FeArray.asfearray(np.asarray(v, dtype=float)[None, None])


def svm(sig6):
    s = np.array(sig6, dtype=float)
    s[:3] -= s[:3].mean()
    return np.sqrt(1.5 * s @ s)


def reference(eps, A, n, sigma_0, dt):
    """Radial return from the virgin state: returns (svm, dGamma)."""
    C = np.asarray(elastic.C)
    svm_tr = svm(C @ eps)
    if svm_tr <= SIGMA_Y:
        return svm_tr, 0.0

    def g(dG):
        return svm_tr - 3 * G * dG - SIGMA_Y - H * dG - sigma_0 * (dG / (A * dt)) ** (1 / n)

    dG = brentq(g, 0.0, (svm_tr - SIGMA_Y) / (3 * G + H), xtol=1e-18, rtol=1e-14)
    return svm_tr - 3 * G * dG, dG


eps = np.array([3e-3, -1e-3, -0.5e-3, 2e-4, 0.0, 1e-3])
worst = 0.0
print(" n      A       dt | svm ref   svm auto  svm newton | p ref      p auto     | ok(auto)")
for n in [1.0, 3.0, 5.0, 8.0, 10.0]:
    for A, dt in [(1e-3, 0.5), (1.0, 1e-3), (1e-3, 100.0)]:
        rate = IE.ViscoPlastic.Norton(A, n, SIGMA_Y)
        kw = dict(
            yieldSurface=IE.Yield.VonMises(SIGMA_Y),
            hardening=IE.IsotropicHardening.Linear(H),
            rate=rate,
        )
        auto = IE.Behavior(3, elastic, **kw)  # default solver
        newton = IE.Behavior(3, elastic, solver="newton", **kw)

        sA, CA, zA, okA = auto.Integrate(fe(eps), None, dt)
        sN, CN, zN, okN = newton.Integrate(fe(eps), None, dt)
        svm_ref, p_ref = reference(eps, A, n, SIGMA_Y, dt)

        svm_A, svm_N = svm(np.asarray(sA)[0, 0]), svm(np.asarray(sN)[0, 0])
        p_A = float(np.asarray(zA)[0, 0, 6])
        err_A = abs(svm_A - svm_ref) / SIGMA_Y
        err_N = abs(svm_N - svm_ref) / SIGMA_Y
        assert err_N < 1e-6, "the general Newton solver is expected to match the reference"
        if bool(np.all(okA)):  # the solver claims convergence
            worst = max(worst, err_A)
        print(
            f"{n:4.0f} {A:8.1e} {dt:8.1e} | {svm_ref:9.4f} {svm_A:9.4f} {svm_N:9.4f} | "
            f"{p_ref:.4e} {p_A:.4e} | {bool(np.all(okA))}"
        )

print(f"\nworst |svm(auto) - svm(reference)| / sigma_y with converged=True : {worst:.3e}")
if worst > 1e-4:
    print("DEFECT: the default solver returns an unconverged viscoplastic stress, flagged as converged,")
    print("        and disagrees with solver='newton' and with the closed-form radial return.")
    sys.exit(1)
print("no defect")
sys.exit(0)
