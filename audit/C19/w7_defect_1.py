"""C19 defect 1 (UNCHANGED library): the default local solver (spectral return) silently returns an
unconverged state for a viscoplastic law with a realistic Norton exponent (n >= 5), and then
disagrees with the general Newton solver -- 'both local solvers agree' is violated, and the
returned (sigma, p) do not satisfy the law's own consistency equation
f(sigma, R(p)) = inverse(dGamma/dt), although `converged` is all True.

Mechanism (EasyFEA/Models/InElastic/_spectral.py, Solve + _behavior.py, Behavior.__Spectral):
the scalar Newton on theta starts at theta = 0, where the rate term -inverse(theta*phi/dt) ~
-(dGamma)^(1/n) has an unbounded slope (dinverse(_TINY) ~ 1e200 for n > 1), so the first steps
are ~1e-200, 1e-13x, ... and the iterate needs more than the `_maxIter` = 20 iterations it is
given once n >= 5. The loop simply runs out; nothing checks the residual afterwards, and
Behavior.__Spectral reports `converged = np.ones(...)` unconditionally. The general solver
(solver="newton") starts from the explicit rate estimate and converges to 1e-15.

Exit 1 when the defect is present, 0 otherwise.
"""

import sys

import numpy as np

from EasyFEA import Models
from EasyFEA.FEM._linalg import FeArray
from EasyFEA.Models.Elastic._laws import Isotropic

IE = Models.InElastic
E, NU, SIGMA_Y, H = 210000.0, 0.3, 250.0, 2000.0


def svm(sig):
    sig = np.asarray(sig, dtype=float)
    dev = sig.copy()
    dev[..., :3] -= sig[..., :3].sum(-1, keepdims=True) / 3
    return np.sqrt(1.5 * (dev**2).sum(-1))


bad = []
for n, A, dt in [(3.0, 1e-2, 1.0), (5.0, 1e-2, 1.0), (6.0, 1e-2, 1.0), (8.0, 1e-2, 1.0), (5.0, 1e-6, 1.0)]:
    kwargs = dict(
        yieldSurface=IE.Yield.VonMises(SIGMA_Y),
        hardening=IE.IsotropicHardening.Linear(H),
        rate=IE.ViscoPlastic.Norton(A, n, SIGMA_Y),
    )
    fast = IE.Behavior(3, Isotropic(3, E=E, v=NU), **kwargs)  # solver="auto": spectral
    slow = IE.Behavior(3, Isotropic(3, E=E, v=NU), solver="newton", **kwargs)

    eps = FeArray.asfearray(np.random.default_rng(0).normal(0.0, 4e-3, (4, 3, 6)))
    out = {}
    for name, law in (("auto", fast), ("newton", slow)):
        sig, _, z, ok = law.Integrate(eps, None, dt)
        p = np.asarray(z)[..., 6]  # from the virgin state p == dGamma
        f = svm(sig) - SIGMA_Y - H * p
        res = np.where(p > 0, f - SIGMA_Y * (np.maximum(p / dt, 1e-300) / A) ** (1 / n), 0.0)
        out[name] = (np.asarray(sig), bool(np.all(ok)), np.max(np.abs(res)) / SIGMA_Y)
    diff = np.linalg.norm(out["auto"][0] - out["newton"][0]) / np.linalg.norm(out["newton"][0])
    print(
        f"Norton n={n:g} A={A:g}: auto ok={out['auto'][1]} residual={out['auto'][2]:.2e} sigma_y | "
        f"newton ok={out['newton'][1]} residual={out['newton'][2]:.2e} sigma_y | "
        f"|sig_auto - sig_newton|/|sig| = {diff:.2e}"
    )
    if out["auto"][1] and (out["auto"][2] > 1e-6 or diff > 1e-6):
        bad.append(n)

if bad:
    print(
        "DEFECT: the default (spectral) solver reports converged=True but its result violates "
        f"the consistency equation and differs from solver='newton' for Norton n in {bad}"
    )
    sys.exit(1)
print("no defect")
sys.exit(0)
