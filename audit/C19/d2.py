"""C19 / d2 -- Behavior(2, ..., planeStress=True) only removes sigma_zz: with an elastic law whose
material axes are tilted out of the (x, y) plane the out-of-plane SHEAR stresses sigma_xz, sigma_yz
stay as large as the in-plane stress, and a behavior without internal variables is no longer the
plane-stress linear-elastic law Models.Elastic gives for the very same material.

Reference (independent): plane stress means sigma_zz = sigma_yz = sigma_xz = 0, hence
    sigma_2D = inv(S[ip, ip]) @ eps_2D          with S = inv(C_3D), ip = (xx, yy, xy)
which is also what EasyFEA's own 2D law TransverselyIsotropic(2, ..., planeStress=True).C is.
"""

import sys

import numpy as np

from EasyFEA import Models
from EasyFEA.FEM import FeArray
from EasyFEA.Models.Elastic._laws import TransverselyIsotropic

IE = Models.InElastic
IP, OUT = [0, 1, 5], [2, 3, 4]  # Kelvin-Mandel: xx yy zz yz xz xy


def fe(v):
    return FeArray.asfearray(np.asarray(v, dtype=float)[None, None])


params = dict(El=11580.0, Et=500.0, Gl=450.0, vl=0.02, vt=0.44)
eps2 = np.array([1e-3, -2e-4, 5e-4])

worst_out, worst_lin = 0.0, 0.0
for axis_l, axis_t in [((1, 0, 0), (0, 1, 0)), ((1, 0, 1), (0, 1, 0)), ((1, 1, 1), (1, -1, 0))]:
    law3 = TransverselyIsotropic(3, axis_l=axis_l, axis_t=axis_t, **params)
    law2 = TransverselyIsotropic(2, axis_l=axis_l, axis_t=axis_t, planeStress=True, **params)

    # --- no internal variables: must be exactly linear elastic (plane stress)
    behavior = IE.Behavior(2, law3, planeStress=True)
    sig, C_alg, _, ok = behavior.Integrate(fe(eps2))
    sig, C_alg = np.asarray(sig)[0, 0], np.asarray(C_alg)[0, 0]

    C3 = np.asarray(law3.C)
    C_ps = np.linalg.inv(np.linalg.inv(C3)[np.ix_(IP, IP)])  # numpy reference
    assert np.allclose(C_ps, np.asarray(law2.C), rtol=1e-9), "reference and Models.Elastic agree"
    sig_ref = C_ps @ eps2

    # the 6D state the behavior really works with
    eps6 = np.asarray(behavior.Compute_strain_6d(fe(eps2)))[0, 0]
    sig6 = np.asarray(behavior.Compute_sigma(fe(eps6)))[0, 0]

    rel_lin = np.abs(sig - sig_ref).max() / np.abs(sig_ref).max()
    rel_out = np.abs(sig6[OUT]).max() / np.abs(sig6[IP]).max()
    rel_C = np.abs(C_alg - C_ps).max() / np.abs(C_ps).max()
    print(f"axis_l = {axis_l}")
    print(f"   Behavior stress      {sig}")
    print(f"   plane-stress elastic {sig_ref}   rel. diff = {rel_lin:.3e}, tangent rel. diff = {rel_C:.3e}")
    print(f"   out-of-plane stress  zz={sig6[2]:.3e} yz={sig6[3]:.3e} xz={sig6[4]:.3e}"
          f"   (max / in-plane max = {rel_out:.3e})")

    # --- the same with plasticity switched on (elastic step and plastic step)
    plastic = IE.Behavior(2, law3, yieldSurface=IE.Yield.VonMises(5.0),
                          hardening=IE.IsotropicHardening.Linear(100.0), planeStress=True)
    for amp in (0.3, 1.0):
        try:
            e6 = np.asarray(plastic.Compute_strain_6d(fe(amp * eps2)))[0, 0]
            _, _, z, _ = plastic.Integrate(fe(amp * eps2))
        except AssertionError as err:  # the sigma_zz iteration may also fail to converge here
            print(f"   with VonMises, amplitude x{amp:>4}: {str(err)[:70]}")
            continue
        s6 = np.asarray(plastic.Compute_sigma(fe(e6), z))[0, 0]
        r = np.abs(s6[OUT]).max() / np.abs(s6[IP]).max()
        print(f"   with VonMises, amplitude x{amp:>4}: p = {float(np.asarray(z)[0,0,6]):.2e},"
              f" out-of-plane / in-plane = {r:.3e}")
        if axis_l != (1, 0, 0):
            worst_out = max(worst_out, r)

    if axis_l == (1, 0, 0):
        assert rel_lin < 1e-9 and rel_out < 1e-9, "in-plane axes: expected to be correct"
    else:
        worst_out = max(worst_out, rel_out)
        worst_lin = max(worst_lin, rel_lin)

print(f"\nworst out-of-plane / in-plane stress ratio : {worst_out:.3e}")
print(f"worst deviation from the linear-elastic plane-stress law : {worst_lin:.3e}")
if worst_out > 1e-6 or worst_lin > 1e-6:
    print("DEFECT: plane stress leaves out-of-plane shear stress; the state-free behavior is not Models.Elastic")
    sys.exit(1)
print("no defect")
sys.exit(0)
