"""C19 / d3 -- the spectral (default) local solver uses YieldSurface.scale AS the yield stress.

YieldSurface documents `scale` as "a representative stress, so the solver tolerance is
dimensionless", and `P` as the quadratic form that lets Behavior pick the scalar spectral return.
The yield stress itself lives inside `f(sig, R) = phi(sig) - sigma_y - R`.  For the built-in
factories scale == sigma_y, which hides the confusion; for any user-defined quadratic surface whose
`scale` is merely representative (a round number, a reference stress, 1.0 ...) the default solver
returns to the surface  phi = scale + R  instead of  phi = sigma_y + R :

  * scale > sigma_y : the returned stress lies OUTSIDE the yield surface, with no plastic flow;
  * scale < sigma_y : the stress is returned far inside the surface, with a large spurious
                      plastic strain,
and in both cases it disagrees with solver="newton", which reads `f` and is right.

Reference (independent): closed-form radial return for J2 + linear isotropic hardening,
    dGamma = (svm_trial - sigma_y) / (3 G + H),   svm = sigma_y + H dGamma.
"""

import sys

import numpy as np

from EasyFEA import Models
from EasyFEA.FEM import FeArray
from EasyFEA.Models.Elastic._laws import Isotropic

IE = Models.InElastic

E, nu, SIGMA_Y, H = 210e3, 0.3, 250.0, 2000.0
G = E / (2 * (1 + nu))
elastic = Isotropic(3, E=E, v=nu)


def fe(v):
    return FeArray.asfearray(np.asarray(v, dtype=float)[None, None])


def svm(sig6):
    s = np.array(sig6, dtype=float)
    s[:3] -= s[:3].mean()
    return np.sqrt(1.5 * s @ s)


def user_surface(sigma_y: float, scale: float) -> "IE.YieldSurface":
    """A J2 surface assembled through the public YieldSurface tuple, as its docstring invites."""
    vm = IE.Yield.VonMises(sigma_y)  # supplies phi, its two derivatives and P
    return IE.YieldSurface(f=vm.f, N=vm.N, scale=scale, dNdSig=vm.dNdSig, P=vm.P)


eps = np.array([3e-3, -1e-3, -0.5e-3, 2e-4, 0.0, 1e-3])
svm_tr = svm(np.asarray(elastic.C) @ eps)
dG_ref = (svm_tr - SIGMA_Y) / (3 * G + H)
svm_ref = SIGMA_Y + H * dG_ref
print(f"trial svm = {svm_tr:.4f}   reference: svm = {svm_ref:.6f}, p = {dG_ref:.6e}\n")

worst = 0.0
print("  scale  solver |      svm          p        f = svm - sigma_y - H p   converged")
for scale in [250.0, 100.0, 1.0, 1000.0]:
    for solver in ["auto", "newton"]:
        behavior = IE.Behavior(
            3,
            elastic,
            yieldSurface=user_surface(SIGMA_Y, scale),
            hardening=IE.IsotropicHardening.Linear(H),
            solver=solver,
        )
        sig, _, z, ok = behavior.Integrate(fe(eps))
        s, p = svm(np.asarray(sig)[0, 0]), float(np.asarray(z)[0, 0, 6])
        f = s - SIGMA_Y - H * p
        err = abs(s - svm_ref) / SIGMA_Y
        print(f"{scale:7.1f}  {solver:6s} | {s:10.4f} {p:12.5e} {f:14.4f}            {bool(np.all(ok))}")
        if solver == "newton" or scale == SIGMA_Y:
            assert err < 1e-6, "expected to be correct"
        else:
            worst = max(worst, err)

print(f"\nworst |svm(auto) - svm(reference)| / sigma_y for scale != sigma_y : {worst:.3e}")
if worst > 1e-6:
    print("DEFECT: the default solver returns to phi = scale + R instead of f = 0; stress outside the")
    print("        yield surface (scale > sigma_y) or spurious plastic strain (scale < sigma_y).")
    sys.exit(1)
print("no defect")
sys.exit(0)
