"""C19 defect 2 (UNCHANGED library): with kinematic hardening AND a Maxwell branch the integrated
stress can end far OUTSIDE the current yield surface (f = +1.1 sigma_y here) while Integrate
reports converged=True -- 'the integrated stress of a rate-independent material lies on or
inside the current yield surface' is violated.

Mechanism (EasyFEA/Models/InElastic/_behavior.py, Behavior.__Flow / __Freeze / __Norm): the set
of flowing points is decided ONCE, from the trial state u = 0 (no flow and no relaxation yet):
`active = r[..., nz] > 0`. Idle points get dGamma pinned to 0 and their yield row is removed
from the convergence norm. But the Maxwell branches keep relaxing inside the step, and
relaxation moves the stress from C:(eel) - g C:eps_v towards (1 - g) C:eel. After a fast
load reversal (eps_v still at its old, large value) that motion is an INCREASE of the stress of
g*C*(eel_old - eel_new); with kinematic hardening the elastic range is only 2 sigma_y wide, so
a trial state sitting inside the (translated) surface relaxes right through its other side.
The point was classified idle, so nothing flows and nothing complains.

Path below (pure shear, one Gauss point): slow loading far into the plastic range, fast
reversal (dt = 1e-4 tau), then the strain is HELD for dt = 50 tau.

Exit 1 when the defect is present, 0 otherwise.
"""

import sys

import numpy as np

from EasyFEA import Models
from EasyFEA.FEM._linalg import FeArray
from EasyFEA.Models.Elastic._laws import Isotropic

IE = Models.InElastic
E, NU, SIGMA_Y = 210000.0, 0.3, 250.0

law = IE.Behavior(
    3,
    Isotropic(3, E=E, v=NU),
    yieldSurface=IE.Yield.VonMises(SIGMA_Y),
    kinematic=IE.KinematicHardening.ArmstrongFrederick(40000.0, 0.0),
    branches=[IE.ViscoElastic.Maxwell(0.8, 1.0)],
)


def svm(sig):
    dev = np.array(sig, dtype=float)
    dev[:3] -= dev[:3].sum() / 3
    return np.sqrt(1.5 * (dev**2).sum())


def step(gamma, z, dt):
    eps = np.zeros(6)
    eps[5] = gamma
    sig, _, z, ok = law.Integrate(FeArray.asfearray(eps[None, None]), z, dt)
    X = np.asarray(law.Compute_back_stress(z))[0, 0]
    f = svm(np.asarray(sig)[0, 0] - X) - SIGMA_Y
    return z, bool(np.all(ok)), f


z, worst = None, 0.0
path = (
    [(g, 50.0) for g in np.linspace(0, 2e-2, 41)[1:]]  # slow loading
    + [(g, 1e-4) for g in np.linspace(2e-2, 0.0, 41)[1:]]  # fast reversal
    + [(0.0, 50.0)] * 5  # hold
)
for k, (g, dt) in enumerate(path):
    z, ok, f = step(g, z, dt)
    if ok and f / SIGMA_Y > 1e-6:
        print(f"step {k}: eps_xy = {g:.4f}, dt = {dt:g}: converged=True but f = {f / SIGMA_Y:+.3f} sigma_y")
    if ok:
        worst = max(worst, f / SIGMA_Y)

if worst > 1e-6:
    print(f"DEFECT: stress outside the yield surface by {worst:.3f} sigma_y on a step reported converged")
    sys.exit(1)
print("no defect")
sys.exit(0)
