"""C19 defect 3 (UNCHANGED library): a plane-stress Behavior WITHOUT internal variables is not
linear elastic for small strains: below |eps| ~ 1e-9 it answers with the PLANE-STRAIN stress
(27 % off for nu = 0.3) while the returned tangent is the plane-stress one. So
Integrate(s * eps) != s * Integrate(eps), 'a material without internal variables is exactly
linear elastic' and 'plane stress leaves no out-of-plane stress' (relative to the stress level)
are violated. Scale-free in the unit system: the threshold strain is ~1e-9 in MPa and in Pa.

Mechanism (EasyFEA/Models/InElastic/_behavior.py, Behavior.__Plane_stress_strain): the eps_zz
Newton stops on an ABSOLUTE stress tolerance,
    tol = max(_planeStress_tol * max(scale, 1.0), 10 * _tol * max(C[zz, zz]))  (~3e-4 MPa),
tested BEFORE the first update. With eps_zz = 0 as the starting guess, any strain whose
plane-strain sig_zz is already below that tolerance is accepted as is -- eps_zz stays 0.
An elastic material needs exactly one (linear) update, which is skipped.

Exit 1 when the defect is present, 0 otherwise.
"""

import sys

import numpy as np

from EasyFEA import Models
from EasyFEA.FEM._linalg import FeArray
from EasyFEA.Models.Elastic._laws import Isotropic

E, NU = 210000.0, 0.3
law = Models.InElastic.Behavior(2, Isotropic(3, E=E, v=NU), planeStress=True)
assert law.layout.n == 0
C2 = Isotropic(2, E=E, v=NU, planeStress=True).C  # the elastic law's own plane-stress stiffness

direction = np.array([1.0, 0.3, 0.2])
worst = 0.0
for s in [1e-3, 1e-6, 1e-8, 1e-9, 1e-10, 1e-12]:
    sig, C_alg, _, _ = law.Integrate(FeArray.asfearray((s * direction)[None, None]))
    sig = np.asarray(sig)[0, 0]
    ref = C2 @ (s * direction)
    err = np.max(np.abs(sig - ref)) / np.max(np.abs(ref))
    errC = np.max(np.abs(np.asarray(C_alg)[0, 0] - C2)) / np.max(np.abs(C2))
    print(f"|eps| ~ {s:.0e}: |sig - C_ps eps| / |sig| = {err:.3e}   (tangent vs C_ps: {errC:.1e})")
    worst = max(worst, err)

if worst > 1e-8:
    print(f"DEFECT: plane-stress elastic response off by {100 * worst:.0f} % at small strains (it is the plane-strain stress)")
    sys.exit(1)
print("no defect")
sys.exit(0)
