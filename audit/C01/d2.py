"""C01 / d2 -- bar (1D beam structure, single unknown ux) under a constant axial strain.

A straight bar parallel to the x axis is stretched: ux = a0 + ea * x is prescribed at its two ends
(ea > 0: the bar is in tension whatever the direction in which its Line was drawn).
Reference (closed form): ux = a0 + ea * x at every node, ux' = ea, N = E A ea, Sxx = E ea.

The same bar is meshed in four positions: on the x axis or on the parallel line y = 1, drawn from
left to right or from right to left.  The post-processed axial strain / force / stress must not
depend on those choices.

Exit code 1 when a reported value differs from the closed form, 0 otherwise.
"""

import io
import sys
import contextlib
import numpy as np

from EasyFEA import Models, Simulations, Mesher, ElemType
from EasyFEA.Geoms import Domain, Point, Line

TOL = 1e-8
E, NU = 210e9, 0.3
B, H = 0.1, 0.2
A = B * H
A0, EA = 1e-3, 2e-3  # ux = A0 + EA * x


def run(p1, p2, elemType, useTimoshenko):
    with contextlib.redirect_stdout(io.StringIO()):  # silence the mesher / SEG2 warning
        section = Mesher().Mesh_2D(Domain(Point(-B / 2, -H / 2), Point(B / 2, H / 2), H / 4))
        line = Line(Point(*p1), Point(*p2), 0.5)
        beam = Models.Beam.Isotropic(1, line, section, E, NU)
        mesh = Mesher().Mesh_Beams([beam], elemType)
        simu = Simulations.Beam(mesh, beam, useTimoshenko=useTimoshenko)
    mesh = simu.mesh
    x = mesh.coord[:, 0]
    U = A0 + EA * x
    ends = mesh.Nodes_Point(Point(*p1), Point(*p2))
    simu.add_dirichlet(ends, [U[ends]], ["x"])
    u = simu.Solve()

    res = {"u": np.abs(u - U).max() / np.abs(U).max()}
    ref = {"ux'": EA, "N": E * A * EA, "Sxx": E * EA, "Strain": EA, "Stress": E * EA}
    for name, value in ref.items():
        got = np.asarray(simu.Result(name, nodeValues=False)).ravel()
        res[name] = np.abs(got - value).max() / abs(value)
    return res, float(np.asarray(simu.Result("N", nodeValues=False)).ravel()[0])


CASES = [
    ("on the x axis, drawn towards +x", (0, 0, 0), (2, 0, 0)),
    ("on the x axis, drawn towards -x", (2, 0, 0), (0, 0, 0)),
    ("on the line y=1, drawn towards +x", (0, 1, 0), (2, 1, 0)),
    ("on the line y=1, drawn towards -x", (2, 1, 0), (0, 1, 0)),
    ("on the line z=1, drawn towards -x", (2, 0, 1), (0, 0, 1)),
]

defect = False
print(f"expected N = E A ea = {E * A * EA:.6e} (tension)")
for useTimoshenko in (False, True):
    for elemType in ElemType.Get_1D():
        for name, p1, p2 in CASES:
            res, N = run(p1, p2, elemType, useTimoshenko)
            bad = max(res.values()) > TOL
            defect |= bad
            kind = "Timoshenko" if useTimoshenko else "Euler-Bernoulli"
            txt = " ".join(f"{k}={v:.1e}" for k, v in res.items())
            print(f"{kind:15s} {elemType:5s} {name:34s} N={N: .6e}  rel.err: {txt}  {'<-- WRONG' if bad else 'ok'}")

if defect:
    print("\nDEFECT: the axial strain / force / stress of a bar in tension come out with the wrong sign.")
    sys.exit(1)
print("\nno defect")
sys.exit(0)
