"""C01 / d1 -- 2D elastic patch test on a mesh that went through Mesh.Rotate / Mesh.Translate.

A plane mesh of the unit square is rotated with the public ``Mesh.Rotate``:
  * by 360 deg about the x axis  (the identity map),
  * by 180 deg about the x axis  (the in-plane mirror image y -> -y),
both of which leave the mesh in the plane z = 0 up to round-off (|z| ~ 1e-16), and translated with
``Mesh.Translate(dz=1)`` (a parallel plane).  A linear displacement field is prescribed on the boundary
of a plane-stress isotropic problem and the full pipeline is run: Solve(), Result('Strain'),
Result('Stress'), Result('Wdef').

Reference (independent, closed form): u = G x + c at every node, eps = sym(G), sig = C eps,
W = 1/2 sig:eps * area * thickness.

Exit code 1 when a case is accepted by the library and the answer is wrong, 0 otherwise
(a clear refusal of the out-of-plane mesh counts as correct behaviour).
"""

import sys
import numpy as np

from EasyFEA import Models, Simulations, ElemType
from EasyFEA.Geoms import Domain, Point

TOL = 1e-8
E, NU, THICK = 210e9, 0.3, 0.5
G = np.array([[1.3e-3, -0.4e-3], [0.9e-3, 0.7e-3]])
C0 = np.array([0.2e-3, -0.1e-3])


def boundary_nodes(mesh):
    nodes = set()
    for g in mesh.Get_list_groupElem(mesh.dim - 1):
        nodes |= set(g.nodes.tolist())
    return np.array(sorted(nodes))


def patch(mesh):
    """returns the relative errors (u at interior nodes, strain, stress, energy)"""
    mat = Models.Elastic.Isotropic(2, E=E, v=NU, planeStress=True, thickness=THICK)
    simu = Simulations.Elastic(mesh, mat)

    X = mesh.coord[:, :2]
    U = X @ G.T + C0
    bn = boundary_nodes(mesh)
    simu.add_dirichlet(bn, [U[bn, 0], U[bn, 1]], ["x", "y"])
    u = simu.Solve().reshape(-1, 2)

    inside = np.setdiff1d(np.arange(mesh.Nn), bn)
    err_u = np.abs(u - U)[inside].max() / np.abs(U).max()

    # closed form, written here independently of the library
    eps = 0.5 * (G + G.T)
    exx, eyy, exy = eps[0, 0], eps[1, 1], eps[0, 1]
    f = E / (1 - NU**2)
    sxx, syy, sxy = f * (exx + NU * eyy), f * (eyy + NU * exx), E / (1 + NU) * exy
    W_ref = 0.5 * (sxx * exx + syy * eyy + 2 * sxy * exy) * 1.0 * THICK

    strain = simu.Result("Strain", nodeValues=False)  # (Ne, 3) [Exx, Eyy, Exy]
    stress = simu.Result("Stress", nodeValues=False)  # (Ne, 3) [Sxx, Syy, Sxy]
    W = simu.Result("Wdef")
    ref_e = np.array([exx, eyy, exy])
    ref_s = np.array([sxx, syy, sxy])
    err_e = np.abs(strain - ref_e).max() / np.abs(ref_e).max()
    err_s = np.abs(stress - ref_s).max() / np.abs(ref_s).max()
    err_w = abs(W / W_ref - 1)
    return err_u, err_e, err_s, err_w


CASES = [
    ("untouched mesh", lambda m: None),
    ("Rotate(90) about z (in plane)", lambda m: m.Rotate(90.0, direction=(0, 0, 1))),
    ("Rotate(360) about x (identity)", lambda m: m.Rotate(360.0, direction=(1, 0, 0))),
    ("Rotate(180) about x (y -> -y)", lambda m: m.Rotate(180.0, direction=(1, 0, 0))),
    ("Translate(dz=1)", lambda m: m.Translate(dz=1.0)),
]

defect = False
for elemType in [ElemType.TRI3, ElemType.QUAD4, ElemType.TRI6, ElemType.QUAD9]:
    for name, transform in CASES:
        mesh = Domain(Point(0, 0), Point(1, 1), 0.25).Mesh_2D([], elemType, isOrganised=False)
        transform(mesh)
        zmax = np.abs(mesh.coord[:, 2]).max()
        try:
            err_u, err_e, err_s, err_w = patch(mesh)
        except AssertionError as err:
            print(f"{elemType:6s} {name:32s} |z|max={zmax:.1e}  refused: {err}")
            continue
        bad = max(err_u, err_e, err_s, err_w) > TOL
        defect |= bad
        print(
            f"{elemType:6s} {name:32s} |z|max={zmax:.1e}  mesh.inDim={mesh.inDim} "
            f"groupElem.inDim={mesh.groupElem.inDim}  err u={err_u:.1e} strain={err_e:.1e} "
            f"stress={err_s:.1e} Wdef={err_w:.1e}  {'<-- WRONG' if bad else 'ok'}"
        )

if defect:
    print("\nDEFECT: the linear field is not reproduced on a rotated / translated plane mesh.")
    sys.exit(1)
print("\nno defect")
sys.exit(0)
