"""Defect of the UNCHANGED library found while exploring C01 (patch test).

A connectivity array stored in a small unsigned integer type overflows silently in the assembly.

_GroupElem keeps the connectivity with the dtype it is given (GroupElemFactory.Create / _GroupElem.__init__
only check its shape).  EasyFEA/FEM/_group_elem.py, _GroupElem._Get_assembly_e computes the dof
numbers with

    assembly[:, columns] = np.array(connect) * dof_n + d

i.e. IN THE DTYPE OF `connect`, and only then stores them in the int64 `assembly` array.  With a
uint8 connectivity (a legal description of any mesh of up to 256 nodes) `node * dof_n` wraps around as
soon as node * dof_n > 255; with uint16 as soon as Nn * dof_n > 65535 (33 000 nodes in 2D elasticity,
22 000 nodes in 3D).  The element matrices are scattered to the wrong rows/columns: the stiffness matrix
is wrong or singular, without any message.

Here: a 14 x 14 grid of QUAD4 (196 nodes, the node numbers fit in uint8), plane elasticity, linear
displacement field prescribed on the boundary.  With int64 / int32 / uint16 connectivities the field is
reproduced to 1e-15; with the SAME numbers stored as uint8 the solution is NaN (singular matrix).

exit 1 when the defect is present, 0 otherwise.
"""

import sys
import warnings
import numpy as np

from EasyFEA import Models, Simulations, ElemType
from EasyFEA.FEM import Mesh, GroupElemFactory

warnings.filterwarnings("ignore")


def patch(dtype):
    n = 14
    X = np.linspace(0, 1, n)
    xs, ys = np.meshgrid(X, X, indexing="ij")
    coords = np.stack([xs.ravel(), ys.ravel(), 0 * xs.ravel()], 1)
    idx = lambda i, j: i * n + j  # noqa: E731
    connect = np.array(
        [
            [idx(i, j), idx(i + 1, j), idx(i + 1, j + 1), idx(i, j + 1)]
            for i in range(n - 1)
            for j in range(n - 1)
        ]
    )
    assert connect.max() <= np.iinfo(dtype).max
    boundary = np.array(
        [idx(i, j) for i in range(n) for j in range(n) if i in (0, n - 1) or j in (0, n - 1)]
    )
    groupElem = GroupElemFactory.Create(ElemType.QUAD4, connect.astype(dtype), coords)
    mesh = Mesh({ElemType.QUAD4: groupElem})

    simu = Simulations.Elastic(mesh, Models.Elastic.Isotropic(2, E=1.0, v=0.3))
    fx = lambda x, y, z: 0.3 * x - 0.2 * y + 1  # noqa: E731
    fy = lambda x, y, z: 0.1 * x + 0.25 * y - 1  # noqa: E731
    simu.add_dirichlet(boundary, [fx, fy], ["x", "y"])
    u = simu.Solve().reshape(-1, 2)
    c = mesh.coord
    err = max(np.abs(u[:, 0] - fx(*c.T)).max(), np.abs(u[:, 1] - fy(*c.T)).max())
    return err


def main():
    bad = False
    for dtype in [np.int64, np.int32, np.uint16, np.uint8]:
        err = patch(dtype)
        ok = bool(err <= 1e-10)  # NaN -> False
        bad = bad or not ok
        print(
            f"[{'ok ' if ok else 'BAD'}] connectivity stored as {np.dtype(dtype).name:6s}: max |u - linear field| = {err:.2e}"
        )
    if bad:
        print(
            "DEFECT: the dof numbers are computed in the dtype of the connectivity (node * dof_n overflows for "
            "uint8 / uint16): the linear field is not reproduced."
        )
        return 1
    print("no defect")
    return 0


if __name__ == "__main__":
    sys.exit(main())
