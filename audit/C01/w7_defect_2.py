"""Defect of the UNCHANGED library found while exploring C01 (patch test).

Node coordinates given as an INTEGER array are truncated when the elements do not fill the space
they live in (plane mesh tilted in 3D, line mesh in 2D/3D, boundary groups of any 3D / 2D mesh).

_GroupElem.__init__ keeps the coordinate array with the dtype it is given.  In
EasyFEA/FEM/_group_elem.py, _GroupElem.Get_F_e_pg, the branch `self.dim != self.inDim` does

    rebased_coord_e = coord_e.copy()                      # integer array
    rebased_coord_e[isOrth_e]  = coord_e[isOrth_e] @ P_e  # float result written into an int array
    rebased_coord_e[~isOrth_e] = ...

so the coordinates expressed in the element's own axes are rounded towards zero.  Jacobian,
inverse Jacobian and shape-function gradients of these elements are then those of another geometry
(or the elements degenerate: division by zero, NaN solution).

Here: a plane mesh of triangles with integer node coordinates lying in the plane z = x (a valid
mesh, Simulations.Thermal accepts plane meshes that are not in z = 0).  A linear temperature field is
prescribed on the boundary; the exact solution is that field.  With the same coordinates given as
floats the patch test passes to round-off and the area is 42 sqrt(2); given as integers the area is
wrong and the solution is NaN / wrong.

exit 1 when the defect is present, 0 otherwise.
"""

import sys
import warnings
import numpy as np

from EasyFEA import Models, Simulations, ElemType
from EasyFEA.FEM import Mesh, GroupElemFactory

warnings.filterwarnings("ignore")


def build(dtype):
    n = 4
    X = np.array([0, 2, 3, 7])
    Y = np.array([0, 1, 4, 6])
    xs, ys = np.meshgrid(X, Y, indexing="ij")
    # plane z = x
    coords = np.stack([xs.ravel(), ys.ravel(), xs.ravel()], 1).astype(dtype)
    idx = lambda i, j: i * n + j  # noqa: E731
    coords[idx(1, 1)] += np.array([0, 1, 0], dtype=dtype)  # an interior node moved in the plane
    connect = np.array(
        [[idx(i, j), idx(i + 1, j), idx(i + 1, j + 1)] for i in range(n - 1) for j in range(n - 1)]
        + [[idx(i, j), idx(i + 1, j + 1), idx(i, j + 1)] for i in range(n - 1) for j in range(n - 1)]
    )
    boundary = np.array(
        [idx(i, j) for i in range(n) for j in range(n) if i in (0, n - 1) or j in (0, n - 1)]
    )
    groupElem = GroupElemFactory.Create(ElemType.TRI3, connect, coords)
    return Mesh({ElemType.TRI3: groupElem}), boundary


def patch(dtype):
    mesh, boundary = build(dtype)
    area = mesh.area
    simu = Simulations.Thermal(mesh, Models.Thermal(k=1.0, c=1.0))
    field = lambda x, y, z: 0.3 * x - 0.2 * y + 0.5 * z + 1  # noqa: E731
    simu.add_dirichlet(boundary, [field], ["t"])
    t = simu.Solve()
    err = np.abs(t - field(*mesh.coord.T)).max()
    return area, err


def main():
    area_ref = 7 * np.sqrt(2) * 6
    bad = False
    for dtype in [float, int]:
        area, err = patch(dtype)
        ok = abs(area - area_ref) <= 1e-9 * area_ref and err <= 1e-10
        bad = bad or not ok
        print(
            f"[{'ok ' if ok else 'BAD'}] coordinates as {np.dtype(dtype).name:8s}: area = {area:.6f} (exact {area_ref:.6f}), "
            f"max |t - linear field| = {err:.2e}"
        )
    if bad:
        print(
            "DEFECT: integer node coordinates are truncated in Get_F_e_pg (dim != inDim): wrong area and the "
            "linear field is not reproduced."
        )
        return 1
    print("no defect")
    return 0


if __name__ == "__main__":
    sys.exit(main())
