"""C01 / d3 -- beam patch test on a long oblique member (model in millimetres).

One straight 2D member (unknowns ux, uy, rz) from (0, 0) to L*(1, 0.777), meshed with the public
Mesher().Mesh_Beams, Euler-Bernoulli or Timoshenko.  The field of constant axial strain `ea` and
constant curvature `kz` (u = a0 + ea*s, v = c0 + c1*s + kz*s^2/2, rz = v', s = abscissa along the
member) is prescribed at the two end nodes.

Reference (closed form): the same field at every interior node, N = E A ea and Mz = E Iz kz in
every element.

The only thing that changes between the cases is the length scale L of the model:
L = 1e3 (a 1.3 m member in mm) ... L = 1e5 (a 130 m member in mm).

Exit code 1 when the answer of an accepted model is wrong, 0 otherwise.
"""

import io
import sys
import contextlib
import warnings
import numpy as np

from EasyFEA import Models, Simulations, Mesher, ElemType
from EasyFEA.Geoms import Domain, Point, Line

warnings.simplefilter("ignore")  # scipy: 'matrix is exactly singular'
TOL = 1e-6
E, NU = 210e3, 0.3  # MPa
B, H = 100.0, 200.0  # mm
EA = 1e-3  # axial strain


def run(L, elemType, useTimoshenko):
    p1 = np.zeros(3)
    p2 = L * np.array([1.0, 0.777, 0.0])
    length = np.linalg.norm(p2 - p1)
    out = io.StringIO()
    with contextlib.redirect_stdout(out):
        section = Mesher().Mesh_2D(Domain(Point(-B / 2, -H / 2), Point(B / 2, H / 2), H / 4))
        line = Line(Point(*p1), Point(*p2), length / 8)
        beam = Models.Beam.Isotropic(2, line, section, E, NU)
        mesh = Mesher().Mesh_Beams([beam], elemType)
        simu = Simulations.Beam(mesh, beam, useTimoshenko=useTimoshenko)
        mesh = simu.mesh

        i = (p2 - p1) / length  # member axis
        j = np.array([-i[1], i[0], 0.0])  # member transverse axis (yAxis = (0,1,0) made orthogonal to i)
        s = (mesh.coord - p1) @ i
        kz = 0.05 / length  # rotation of 0.05 rad over the member
        a0, c0, c1 = 0.3, -0.2, 1e-3
        ul = a0 + EA * s
        vl = c0 + c1 * s + kz * s**2 / 2
        rz = c1 + kz * s
        U = np.c_[ul * i[0] + vl * j[0], ul * i[1] + vl * j[1], rz]

        ends = mesh.Nodes_Point(Point(*p1), Point(*p2))
        for d, unknown in enumerate(["x", "y", "rz"]):
            simu.add_dirichlet(ends, [U[ends, d]], [unknown])
        u = simu.Solve().reshape(mesh.Nn, 3)

        err_u = np.abs(u - U).max(0) / np.abs(U).max(0)
        N = simu.Result("N", nodeValues=False)
        Mz = simu.Result("Mz", nodeValues=False)
    N_ref = E * beam.area * EA
    Mz_ref = E * beam.Iz * kz
    err_N = np.abs(N - N_ref).max() / N_ref
    err_M = np.abs(Mz - Mz_ref).max() / Mz_ref
    # how many elements did Mesh_Beams hand over to the beam ?
    tagged = len(mesh.Elements_Tags([beam.name]))
    return np.nanmax(err_u) if np.isfinite(err_u).all() else np.nan, err_N, err_M, tagged, mesh.Ne


defect = False
for useTimoshenko in (False, True):
    for elemType in (ElemType.SEG2, ElemType.SEG3):
        for L in (1e3, 1e4, 3e4, 1e5):
            err_u, err_N, err_M, tagged, Ne = run(L, elemType, useTimoshenko)
            bad = not (max(err_u, err_N, err_M) <= TOL)  # nan counts as wrong
            defect |= bad
            kind = "Timoshenko" if useTimoshenko else "Euler-Bernoulli"
            print(
                f"{kind:15s} {elemType:5s} L={L:8.0e}  elements owned by the beam: {tagged}/{Ne}  "
                f"rel.err u={err_u:.1e} N={err_N:.1e} Mz={err_M:.1e}  {'<-- WRONG' if bad else 'ok'}"
            )

if defect:
    print("\nDEFECT: on a long oblique member part of the elements get no beam (zero stiffness) and the solve returns garbage.")
    sys.exit(1)
print("\nno defect")
sys.exit(0)
