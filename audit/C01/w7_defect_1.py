"""Defect of the UNCHANGED library found while exploring C01 (patch test).

TETRA10 with curved interior edges does not pass the patch test.

A mesh of the unit cube made of 10-node tetrahedra is taken from the library's own mesher; the
mid-edge nodes that lie strictly INSIDE the cube are moved by 2 % of the element size (the vertices
and every node of the boundary stay where they are).  The mesh is still a valid mesh of the same
polyhedral domain: the Jacobian is positive at every integration point of the richest rule
(15 points), only some interior edges are now (slightly) curved.

A linear displacement field is prescribed on the boundary and the elastic problem is solved.  The
exact solution is that linear field (constant strain), isoparametric elements contain it whatever the
position of their nodes, so every interior node must get it back to round-off.  All the other
quadratic / cubic element types of the library do (TRI6, TRI10, TRI15, QUAD8, QUAD9, HEXA20, HEXA27,
PRISM15, PRISM18: 1e-14 .. 1e-15 with the same perturbation), TETRA10 is off by ~6e-6 on the
displacement and ~1e-4 on the reported strain (relative), 9 to 10 decades above round-off.

Cause: EasyFEA/FEM/_gauss.py, Gauss.Gauss_factory gives TETRA10 / MatrixType.rigi the 4-point rule
(exact to degree 2).  The patch test needs  sum_p w_p cof(F)(xi_p) grad_xi N_i(xi_p)  to be the exact
integral; on a curved quadratic tetrahedron cof(F) is quadratic and grad N linear -> degree 3.
(With straight edges cof(F) is constant and degree 1 is enough, which is why meshes straight out of
the mesher pass.)  Every other type gets a rule that is sufficient for curved elements
(TRI6: 3 pts/deg 2 needed 2, TRI10: 6 pts/deg 4 needed 4, TRI15: 12 pts/deg 6 needed 6, ...).
Check: with the 15-point rule (the one of MatrixType.mass) used for MatrixType.rigi, the same curved
TETRA10 mesh passes at 2e-15.

exit 1 when the defect is present, 0 otherwise.
"""

import sys
import numpy as np

from EasyFEA import Models, Simulations, ElemType, MatrixType
from EasyFEA.Geoms import Domain, Point

TOL = 1e-9


def boundary_nodes(mesh):
    nodes = set()
    for groupElem in mesh.Get_list_groupElem(mesh.dim - 1):
        nodes.update(groupElem.nodes.tolist())
    return np.array(sorted(nodes))


def patch(elemType, amplitude, seed=1):
    rng = np.random.default_rng(seed)
    h = 1 / 3
    mesh = Domain(Point(0, 0), Point(1, 1), h).Mesh_Extrude(
        [], [0, 0, 1], [3], elemType
    )
    bn = boundary_nodes(mesh)

    # move the interior mid-edge nodes only
    groupElem = mesh.groupElem
    vertices = np.unique(groupElem.connect[:, : groupElem.Nvertex])
    moved = np.setdiff1d(np.setdiff1d(np.arange(mesh.Nn), bn), vertices)
    coord = mesh.coord
    coord[moved] += rng.uniform(-1, 1, size=(moved.size, 3)) * amplitude * h
    mesh.coord = coord

    jacobian = mesh.groupElem.Get_jacobian_e_pg(MatrixType.mass, absoluteValues=False)
    jmin, jmax = float(jacobian.min()), float(jacobian.max())
    assert jmin > 0, "the perturbed mesh must stay valid"

    simu = Simulations.Elastic(mesh, Models.Elastic.Isotropic(3, E=1.0, v=0.3))
    G = rng.normal(size=(3, 3))
    c = rng.normal(size=3)
    fields = [
        (lambda x, y, z, i=i: G[i, 0] * x + G[i, 1] * y + G[i, 2] * z + c[i])
        for i in range(3)
    ]
    simu.add_dirichlet(bn, fields, ["x", "y", "z"])
    u = simu.Solve().reshape(mesh.Nn, 3)

    X = mesh.coord
    exact = np.stack([f(*X.T) for f in fields], 1)
    err_u = np.abs(u - exact).max() / np.abs(exact).max()

    # reported strain [Exx, Eyy, Ezz, Eyz, Exz, Exy] per element
    eps = 0.5 * (G + G.T)
    eps_ref = np.array(
        [eps[0, 0], eps[1, 1], eps[2, 2], eps[1, 2], eps[0, 2], eps[0, 1]]
    )
    strain_e = simu.Result("Strain", nodeValues=False)
    err_eps = np.abs(strain_e - eps_ref).max() / np.abs(eps_ref).max()
    return moved.size, jmin / jmax, err_u, err_eps


def main():
    bad = False
    for elemType in [ElemType.HEXA20, ElemType.PRISM15, ElemType.TETRA10]:
        for amplitude in [0.0, 0.02]:
            n, ratio, err_u, err_eps = patch(elemType, amplitude)
            flag = "ok " if max(err_u, err_eps) <= TOL else "BAD"
            bad = bad or max(err_u, err_eps) > TOL
            print(
                f"[{flag}] {elemType:8s} interior mid-edge nodes moved by {amplitude:4.2f} h ({n:3d} nodes), "
                f"min/max jacobian = {ratio:.3f}:  displacement err = {err_u:.2e}, strain err = {err_eps:.2e}"
            )
    if bad:
        print(
            "DEFECT: the patch test fails on a valid TETRA10 mesh whose interior edges are curved "
            "(4-point rule for MatrixType.rigi is not enough for curved quadratic tetrahedra)."
        )
        return 1
    print("no defect")
    return 0


if __name__ == "__main__":
    sys.exit(main())
