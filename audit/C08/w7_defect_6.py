"""C08 defect 6 (UNCHANGED library) -- the surface Jacobian of a quadrangle embedded in 3D is that
of its PROJECTION on the plane through three of its nodes. For the boundary faces of general
hexahedra (non plane, bilinear faces) the area is therefore wrong and the area-weighted unit
normals (Get_weightedJacobian_e_pg * Get_normals_e_pg) no longer close the domain, while the
un-normalised normals of the same group (Get_normals_e_pg(normalize=False), whose norm is
documented to BE the surface jacobian) do close it exactly: the two documented routes to
`w * J * n` disagree.

Mechanism: _GroupElem.Get_F_e_pg, branch dim != inDim, expresses the nodes of each element in the
frame (i, j, k) built by _Get_sysCoord_e from nodes 0, 1 and 3 and then keeps the first two
components only (`rebased_coord_e[:, :, :dim]`): the out-of-plane part of the tangent vectors is
dropped, the jacobian is |det| of the 2 x 2 in-plane part instead of |x_xi x x_eta|.

Here every node of an organised HEXA8 mesh of the box 2 x 1 x 2 is moved at random by 20 % of
the cell size, the boundary is rebuilt with MeshIO.Surface_reconstruction and the divergence
theorem is checked: sum(n) = 0 and flux(x) / 3 = volume.

exit 1 when the defect is present.
"""

import sys
import numpy as np
from EasyFEA import Mesher, ElemType, MatrixType, Mesh
from EasyFEA.Utilities import MeshIO
from EasyFEA.Geoms import Points

rng = np.random.default_rng(0)
contour = Points([(0, 0), (2, 0), (2, 1), (0, 1)], 1 / 3)
mesh0 = Mesher().Mesh_Extrude(contour, [], [0, 0, 2], [4], ElemType.HEXA8, isOrganised=True)
c = mesh0.coord
c += rng.uniform(-0.07, 0.07, c.shape)
mesh0.coord = c
mesh = MeshIO.Surface_reconstruction(Mesh({ElemType.HEXA8: mesh0.groupElem}))
volume = mesh.volume

tot1, flux1, tot2, flux2, area1, area2 = np.zeros(3), 0.0, np.zeros(3), 0.0, 0.0, 0.0
for g in mesh.Get_list_groupElem(2):
    x = np.asarray(g.Get_GaussCoordinates_e_pg(MatrixType.mass))
    # route 1: weighted jacobian times unit normal
    n = np.asarray(g.Get_normals_e_pg(MatrixType.mass))
    wJ = np.asarray(g.Get_weightedJacobian_e_pg(MatrixType.mass))
    tot1 += np.einsum("ep,epd->d", wJ, n)
    flux1 += np.einsum("ep,epd,epd->", wJ, n, x)
    area1 += wJ.sum()
    # route 2: weights times un-normalised normal (norm = surface jacobian)
    N = np.asarray(g.Get_normals_e_pg(MatrixType.mass, normalize=False))
    w = g.Get_weight_pg(MatrixType.mass)
    tot2 += np.einsum("p,epd->d", w, N)
    flux2 += np.einsum("p,epd,epd->", w, N, x)
    area2 += np.einsum("p,ep->", w, np.linalg.norm(N, axis=2))

print(f"volume of the mesh                      : {volume:.9f}")
print(f"route 1 (wJ * unit normal)   : |sum n| = {np.linalg.norm(tot1):.3e}, flux/3 = {flux1 / 3:.9f}, area = {area1:.9f}")
print(f"route 2 (w * raw normal)     : |sum n| = {np.linalg.norm(tot2):.3e}, flux/3 = {flux2 / 3:.9f}, area = {area2:.9f}")
print(f"mesh.area                                : {mesh.area:.9f}")

bad = (
    np.linalg.norm(tot1) > 1e-9 * area2
    or abs(flux1 / 3 - volume) > 1e-9 * volume
    or abs(area1 - area2) > 1e-9 * area2
)
if bad:
    print("DEFECT: the surface jacobian of non plane quadrangles in 3D is the projected one")
    sys.exit(1)
sys.exit(0)
