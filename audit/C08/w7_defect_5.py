"""C08 defect 5 (UNCHANGED library) -- the normals of the boundary segments of a plane mesh are
only right while the mesh lies in a plane z = const. After Mesh.Rotate about an in-plane or an
oblique axis (the mesh becomes a surface embedded in 3D, which the library supports: area, length
and assembly follow) the boundary normals no longer close the domain.

Mechanism: _GroupElem.Get_normals_e_pg, dim == 1, hard-codes the normal of the surface:
    normals_e_pg = np.cross((0, 0, 1), dxdr_e_pg)
so the "normal" of a segment is e_z x t whatever the plane that carries the mesh. For a mesh turned
by 90 deg about x every segment gets +-e_y: the integral of the unit normal over the closed boundary
does not vanish (it equals the sum of |dx| of the segments) and the flux of the position vector is
0 instead of +-2 * area. Before the rotation both identities hold to round-off.

exit 1 when the defect is present.
"""

import sys
import numpy as np
from EasyFEA import Mesher, ElemType, MatrixType
from EasyFEA.Geoms import Points


def closure(mesh):
    tot, flux, size = np.zeros(3), 0.0, 0.0
    c = mesh.center
    for g in mesh.Get_list_groupElem(mesh.dim - 1):
        n = np.asarray(g.Get_normals_e_pg(MatrixType.mass))
        wJ = np.asarray(g.Get_weightedJacobian_e_pg(MatrixType.mass))
        x = np.asarray(g.Get_GaussCoordinates_e_pg(MatrixType.mass)) - c
        tot += np.einsum("ep,epd->d", wJ, n)
        flux += np.einsum("ep,epd,epd->", wJ, n, x)
        size += wJ.sum()
    return np.linalg.norm(tot) / size, abs(flux) / mesh.dim


contour = Points([(0, 0), (2, 0), (2.5, 1.2), (1, 2), (-0.3, 1)], 0.4)
bad = False
for elemType in (ElemType.TRI3, ElemType.QUAD4, ElemType.TRI6):
    mesh = Mesher().Mesh_2D(contour, [], elemType)
    for label, move in (
        ("in z = 0", lambda m: None),
        ("Rotate(90, axis x)", lambda m: m.Rotate(90, (0, 0, 0), (1, 0, 0))),
        ("Rotate(35, axis (1,1,0))", lambda m: m.Rotate(35, (0, 0, 0), (1, 1, 0))),
    ):
        move(mesh)
        sumN, flux = closure(mesh)
        ok = sumN < 1e-9 and abs(flux - mesh.area) < 1e-9 * mesh.area
        print(
            f"{elemType} {label:26s} area {mesh.area:.6f}  |sum n|/perimeter {sumN:.2e}  "
            f"|flux of x|/2 {flux:.6f}  {'ok' if ok else 'WRONG'}"
        )
        bad |= not ok

if bad:
    print("DEFECT: boundary normals of a plane mesh moved out of z = const do not close the domain")
    sys.exit(1)
sys.exit(0)
