"""C08 defect 4 (UNCHANGED library) -- in a mesh of GENERAL hexahedra or prisms (interior nodes
moved, so that the quadrangular faces are no longer plane) a few percent of the points of the
domain are located in NO element: Mesh.Evaluate_dofsValues_at_coordinates silently returns 0
there instead of the value of the (linear) field.

Mechanism: _GroupElem.Get_pointsInElem (dim == 3) replaces each face of the element by the plane
through three of its nodes (surface[0], surface[1], surface[-1]) and keeps the points that are
behind every such plane. A warped (bilinear) quadrangular face shared by two elements is
approximated by a plane through three nodes chosen from each element's own numbering, i.e.
generally by two DIFFERENT planes: the sliver between them belongs to neither element (or to
both). The volume of the mesh itself stays exact (4.0), so the elements do tile the box.
Tetrahedra (plane faces) are not affected.

exit 1 when the defect is present.
"""

import sys
import numpy as np
from EasyFEA import Mesher, ElemType
from EasyFEA.Geoms import Points

rng = np.random.default_rng(0)
contour = Points([(0, 0), (2, 0), (2, 1), (0, 1)], 1 / 3)

bad = False
for elemType in (ElemType.TETRA4, ElemType.HEXA8, ElemType.PRISM6):
    mesh = Mesher().Mesh_Extrude(contour, [], [0, 0, 2], [4], elemType, isOrganised=True)
    c = mesh.coord
    x, y, z = c.T
    inner = (x > 1e-9) & (x < 2 - 1e-9) & (y > 1e-9) & (y < 1 - 1e-9) & (z > 1e-9) & (z < 2 - 1e-9)
    c[inner] += rng.uniform(-0.07, 0.07, (inner.sum(), 3))  # cells are 1/3 x 1/3 x 1/2
    mesh.coord = c

    X, Y, Z = c.T
    u = 1 + 2 * X - 3 * Y + 0.5 * Z
    pts = rng.uniform([0, 0, 0], [2, 1, 2], (3000, 3))
    v = mesh.Evaluate_dofsValues_at_coordinates(pts, u).ravel()
    exact = 1 + 2 * pts[:, 0] - 3 * pts[:, 1] + 0.5 * pts[:, 2]
    err = np.abs(v - exact)
    nbad = int((err > 1e-8).sum())
    print(
        f"{elemType}: volume {mesh.volume:.12f} (exact 4), {nbad}/3000 points wrong, "
        f"{int((v == 0).sum())} of them returned as 0, max err {err.max():.3f}"
    )
    bad |= nbad > 0

if bad:
    print("DEFECT: points of the domain are not located in meshes of general hexahedra / prisms")
    sys.exit(1)
sys.exit(0)
