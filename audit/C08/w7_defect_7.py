"""C08 defect 7 (UNCHANGED library) -- with coordinates of the order of 1e6 (a structure of a few
kilometres described in millimetres, or geo-referenced coordinates) some edge mid-points -- of
INTERIOR edges (shared by two elements) as well as of boundary edges -- are located in no element:
Mesh.Evaluate_dofsValues_at_coordinates silently returns 0 there. The same mesh at unit size or at
1e3 is fine (the mesh nodes themselves are still found at 1e6 .. 1e7).

Mechanism: the point-in-element tests compare lengths with an ABSOLUTE tolerance:
_GroupElem.Get_pointsInElem (tol = 1e-12 on `cross(e_i, p - corner_i) . n`, e_i unit vectors) and
_GroupElem._Get_coord_Near (tol = 1e-12 on the bounding box). For coordinates ~ 1e6 the round-off
of these expressions is ~ 1e-10 .. 1e-9, so a point that lies exactly on an edge or on a node
fails the test in every element that touches it as soon as the round-off has the wrong sign in
each of them (always possible for points on the boundary of the domain, which have one or two
candidate elements only).

exit 1 when the defect is present.
"""

import sys
import numpy as np
from EasyFEA import Mesher, ElemType
from EasyFEA.Geoms import Points

contour = Points([(0, 0), (4, 0), (4.5, 3.2), (1, 4), (-0.3, 1)], 0.9)
bad = False
for scale in (1.0, 1e3, 1e6, 1e7):
    mesh = Mesher().Mesh_2D(contour, [], ElemType.TRI3)
    mesh.coord = mesh.coord * scale
    coord = mesh.coord
    x, y, _ = coord.T
    u = 1 + 2 * x / scale - 3 * y / scale
    connect = mesh.groupElem.connect
    mids = np.vstack(
        [(coord[connect[:, i]] + coord[connect[:, (i + 1) % 3]]) / 2 for i in range(3)]
    )
    pts = np.vstack([coord, mids])
    v = mesh.Evaluate_dofsValues_at_coordinates(pts, u).ravel()
    exact = 1 + 2 * pts[:, 0] / scale - 3 * pts[:, 1] / scale
    err = np.abs(v - exact)
    nbad = int((err > 1e-7).sum())
    print(f"scale {scale:g}: {nbad}/{len(pts)} points wrong (max error {err.max():.3f}), of which at nodes: {int((err[: mesh.Nn] > 1e-7).sum())}")
    bad |= nbad > 0

if bad:
    print("DEFECT: points on element edges are not located when the coordinates are large")
    sys.exit(1)
sys.exit(0)
