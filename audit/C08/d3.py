"""C08 / d3 -- point location on surface elements embedded in 3D ignores the distance to the
element's plane: on a folded surface mesh, points lying ON one face are "located" in an element
of the adjacent face and the nodal field is evaluated there.

_GroupElem.Get_pointsInElem (dim == 2 branch) only tests that the point is on the inner side of
the edges *after projection along the element normal* (cross(e_i, p) . n >= -tol for all edges);
nothing tests (p . n) ~ 0.  The only 3D filter is the axis-aligned bounding box of the element in
_Get_coord_Near, which has zero thickness as long as the element is parallel to a coordinate
plane -- so the defect is hidden for a face lying in z = cst and appears as soon as the very same
mesh is rotated (or the fold is not axis-aligned).

Mesh: an L-shaped folded plate = unit square in the plane z = 0 merged with a copy of itself
rotated about its edge y = 0 (fold angle 90 or 60 degrees), built with the public API only.
Query points: integration points of every element and all nodes, i.e. points that all belong to
the mesh.  Field: u = 1 + 2x - 3y + 1.5z (linear, reproduced exactly by every element type), whose
nodal values are taken at the nodes of the (moved) mesh, so the exact value is u(point).
"""

import sys
import numpy as np

from EasyFEA import ElemType, MatrixType, Mesh
from EasyFEA.Geoms import Domain, Point


def u(c):
    return 1 + 2 * c[:, 0] - 3 * c[:, 1] + 1.5 * c[:, 2]


def build(elemType, fold):
    faceA = Domain(Point(0, 0), Point(1, 1), 0.25).Mesh_2D([], elemType, isOrganised=True)
    faceB = faceA.copy()
    faceB.Rotate(fold, (0, 0, 0), (1, 0, 0))  # fold along the edge y = 0
    return Mesh.Merge([faceA, faceB])


def query_points(mesh):
    g = mesh.groupElem
    gauss = np.asarray(g.Get_GaussCoordinates_e_pg(MatrixType.mass)).reshape(-1, 3)
    return np.vstack([gauss, mesh.coord])


def dist_to_plane(mesh, elem, p):
    c = mesh.coord[mesh.connect[elem][:3]]
    n = np.cross(c[1] - c[0], c[2] - c[0])
    return abs((p - c[0]) @ n / np.linalg.norm(n))


defect = False
for elemType in [ElemType.TRI3, ElemType.QUAD4, ElemType.TRI6]:
    for fold in [120, 90, 60]:
        mesh = build(elemType, fold)
        for moved in [False, True]:
            if moved:
                # rigid motion of the whole mesh
                mesh.Rotate(30, (0, 0, 0), (1, 2, 3))
                mesh.Rotate(20, (0, 0, 0), (-1, 1, 0.5))
                mesh.Translate(0.3, -0.2, 0.1)
            pts = query_points(mesh)
            values = mesh.Evaluate_dofsValues_at_coordinates(pts, u(mesh.coord)).ravel()
            err = np.abs(values - u(pts))
            nBad = int((err > 1e-8).sum())
            print(
                f"{elemType.value:5s} fold {fold:3d} deg  {'after rigid motion' if moved else 'as built          '}"
                f"  area = {mesh.area:.12f}  max |u_h(x) - u(x)| = {err.max():.3e}"
                f"  ({nBad} of {pts.shape[0]} points wrong)"
            )
            if nBad:
                defect = True
                w = int(np.argmax(err))
                _, elems, _, _ = mesh.groupElem.Get_Mapping(pts[w][None])
                d = [dist_to_plane(mesh, e, pts[w]) for e in elems]
                print(
                    f"        worst point is reported inside elements {elems.tolist()}"
                    f" whose planes are at distance {np.round(d, 4).tolist()} from it"
                )

print()
if defect:
    print("DEFECT: on a folded surface mesh in 3D, points of the mesh are located in elements of")
    print("        the neighbouring face (no out-of-plane test) and a linear field is not reproduced;")
    print("        the result changes under a rigid motion of the mesh.")
    sys.exit(1)
print("no defect")
sys.exit(0)
