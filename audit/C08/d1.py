"""C08 / d1 -- Evaluate_dofsValues_at_coordinates on general (non-parallelogram) QUAD / HEXA
elements depends on the *unit of length* of the mesh.

The inverse isoparametric map of a distorted element is computed in _GroupElem._Get_Mapping with
scipy.optimize.least_squares(Eval, 0 * xP, args=(xP,)) and its default, ABSOLUTE tolerance
gtol = 1e-8 on the gradient J^T r of the cost.  J ~ h and r ~ h (h = element size in the user's
length unit), so the very first iterate already "converges" when h^2 <~ 1e-8: for h <= 1e-4 the
reference coordinates returned are those of the start point (0, 0[, 0]) i.e. the element centre,
for h ~ 1e-3..1e-2 the solve stops one or two Gauss-Newton steps too early.

The same polygon is meshed at four sizes (the geometry is simply given in m, cm, mm, 0.1 mm) and
the dimension-less linear field u = 1 + 2 x/L - 3 y/L (+ z/L) is evaluated at the integration
points of every element.  An isoparametric element reproduces a linear field exactly whatever its
shape, so the exact answer is u(point) and it does not depend on L.
"""

import sys
import numpy as np

from EasyFEA import ElemType, MatrixType
from EasyFEA.Geoms import Points

P = np.array([(0, 0), (2, 0.3), (2.5, 1.5), (1.2, 1.0), (0.3, 2.0)], dtype=float)

TOL = 1e-6  # the field is O(1..10); 1e-6 is already 1e9 times round-off

worst = {}
for L in [1.0, 1e-2, 1e-3, 1e-4]:
    for elemType, is3D in [
        (ElemType.TRI3, False),  # control: affine elements, closed-form inverse map
        (ElemType.QUAD4, False),
        (ElemType.QUAD9, False),
        (ElemType.HEXA8, True),
    ]:
        contour = Points([tuple(p) for p in P * L], 0.5 * L)
        if is3D:
            contour = Points([tuple(p) for p in P * L], 0.7 * L)
            mesh = contour.Mesh_Extrude([], (0, 0, 1.5 * L), [2], elemType)
        else:
            mesh = contour.Mesh_2D([], elemType)

        # query points: the integration points of every element (strictly interior points)
        pts = np.vstack(
            [
                np.asarray(g.Get_GaussCoordinates_e_pg(MatrixType.mass)).reshape(-1, 3)
                for g in mesh.Get_list_groupElem()
            ]
        )

        def u(c):
            return 1 + 2 * c[:, 0] / L - 3 * c[:, 1] / L + c[:, 2] / L

        values = mesh.Evaluate_dofsValues_at_coordinates(pts, u(mesh.coord)).ravel()
        err = np.abs(values - u(pts)).max()
        worst[(elemType.value, L)] = err
        groups = "+".join(g.elemType.value for g in mesh.Get_list_groupElem())
        print(
            f"L = {L:7.0e}  {groups:13s} Ne = {mesh.Ne:3d}  {pts.shape[0]:4d} points"
            f"   max |u_h(x) - u(x)| = {err:.3e}"
        )

bad = {k: v for k, v in worst.items() if v > TOL}
print()
if bad:
    print("DEFECT: a linear field is not reproduced on general QUAD/HEXA elements once the")
    print("        mesh is expressed in a small unit of length (same mesh, same field):")
    for (et, L), v in bad.items():
        print(f"        {et:6s} L = {L:7.0e}: error {v:.3e}")
    sys.exit(1)
print("no defect: linear field reproduced at every mesh size")
sys.exit(0)
