"""C08 defect 3 (UNCHANGED library) -- Calc_projector(oldMesh, newMesh) is wrong for every node of
the new mesh that lies on an edge shared by two elements of the old mesh (nested refinement:
organised meshes of sizes h and h/2, the usual case of a convergence study).

Mechanism: Get_Mapping reports such a point in BOTH elements (connect_e_n) but keeps a single set
of reference coordinates for it (those of the element visited last). Calc_projector loops over
every (element, points) pair and adds, for each of them, the shape functions evaluated at that
single set of reference coordinates against the connectivity of the current element. The rows of
these nodes therefore sum to 2 instead of 1 and mix the nodes of one element with the shape
functions of the other; the block that was meant to average repeated detections
(`counts = np.unique(detectedNodes, return_counts=True)`) never triggers because detectedNodes is
already unique. A linear field is not reproduced (errors of the order of the field itself).
With two unrelated (non nested) unstructured meshes the projector is exact.

exit 1 when the defect is present.
"""

import sys
import numpy as np
from EasyFEA import Mesher, ElemType
from EasyFEA.FEM import Calc_projector
from EasyFEA.Geoms import Points


def run(elemType, organised, h0, h1):
    c0 = Points([(0, 0), (4, 0), (4, 3), (0, 3)], h0)
    c1 = Points([(0, 0), (4, 0), (4, 3), (0, 3)], h1)
    old = Mesher().Mesh_2D(c0, [], elemType, isOrganised=organised)
    new = Mesher().Mesh_2D(c1, [], elemType, isOrganised=organised)
    P = Calc_projector(old, new)
    x, y, _ = old.coord.T
    X, Y, _ = new.coord.T
    err = np.abs(P @ (1 + 2 * x - 3 * y) - (1 + 2 * X - 3 * Y))
    rowsum = np.asarray(P.sum(1)).ravel()
    print(
        f"{elemType} organised={organised}: max err {err.max():.2e}, "
        f"{(err > 1e-9).sum()}/{new.Nn} nodes wrong, row sums in [{rowsum.min():.3f}, {rowsum.max():.3f}]"
    )
    return err.max()


bad = False
for elemType in (ElemType.TRI3, ElemType.QUAD4, ElemType.TRI6):
    e_unrelated = run(elemType, False, 1.0, 0.37)
    e_nested = run(elemType, True, 1.0, 0.5)
    bad |= e_nested > 1e-9 or e_unrelated > 1e-9

if bad:
    print("DEFECT: the projector does not reproduce a linear field on nested meshes")
    sys.exit(1)
sys.exit(0)
