"""C08 defect 2 (UNCHANGED library) -- locating a single point (or a very small batch) whose
coordinates are given as an INTEGER array raises ValueError('invalid entry in coordinates array').

Mechanism: _GroupElem._Get_coord_Near takes the fast "pixel grid" branch when
    coordinates_n.dtype == int and nX * nY == number of points and nZ == 1
with (nX, nY, nZ) = max - min + 1. A single point has (nX, nY, nZ) = (1, 1, 1) and 1 * 1 == 1,
so one integer-valued point (e.g. np.array([[2, 2, 0]])) is mistaken for a 1 x 1 image and
np.ravel_multi_index is called with the pixels of the whole element against a (1, 1) shape.
The same happens for 2 points such as (0,0,0),(1,0,0). The same point given as float works, and
a larger integer batch that is not a full grid works too: the answer must not depend on the dtype
or on the number of points ("singly or in batches").

exit 1 when the defect is present.
"""

import sys
import numpy as np
from EasyFEA import Mesher, ElemType
from EasyFEA.Geoms import Points

contour = Points([(0, 0), (4, 0), (4.5, 3.2), (1, 4), (-0.3, 1)], 0.9)
mesh = Mesher().Mesh_2D(contour, [], ElemType.TRI3)
x, y, _ = mesh.coord.T
u = 1 + 2 * x - 3 * y

bad = False
for pts in (
    np.array([[2.0, 2.0, 0.0]]),  # float, single: reference
    np.array([[2, 2, 0]]),  # int, single
    np.array([[1, 1, 0], [2, 1, 0]]),  # int, two points on a row (a "2 x 1 image")
    np.array([[2, 2, 0], [1, 1, 0], [3, 1, 0]]),  # int, not a grid: works
):
    expected = 1 + 2 * pts[:, 0] - 3 * pts[:, 1]
    try:
        v = mesh.Evaluate_dofsValues_at_coordinates(pts, u).ravel()
        err = np.abs(v - expected).max()
        print(pts.dtype, pts.shape, "max error", f"{err:.2e}")
        bad |= bool(err > 1e-9)
    except Exception as exc:  # noqa: BLE001
        print(pts.dtype, pts.shape, "raised", repr(exc))
        bad = True

if bad:
    print("DEFECT: integer-valued query points given singly are not located")
    sys.exit(1)
sys.exit(0)
