"""C08 / d2 -- Calc_projector(oldMesh, newMesh) is wrong for every new node that lies on an edge
shared by two (or more) elements of the old mesh (and is not an old node).

proj must satisfy  proj @ u_old = u_old evaluated at the new nodes ; in particular every row sums
to 1 and a polynomial of the element's order is transferred exactly when the new nodes are inside
the old mesh.  Get_Mapping reports a node lying on a shared edge in *each* of the elements that
contain it, but keeps only ONE set of reference coordinates for it (those of the last element
visited).  Calc_projector then adds, for each of these elements, the shape function values
computed with that single set of reference coordinates to the columns of the element: the row gets
the right interpolation once plus garbage from the other element(s) and sums to 2 (3, 4, ...).
The code meant to average multiple detections (`counts = np.unique(detectedNodes,
return_counts=True)[1]`) is dead: detectedNodes holds every node once, counts is all ones.

Reference: the field itself (closed form) and the point evaluation of the same nodal field with
mesh.Evaluate_dofsValues_at_coordinates, which picks one owner element per point.
"""

import sys
import numpy as np

from EasyFEA import ElemType
from EasyFEA.Geoms import Domain, Point
from EasyFEA.FEM import Calc_projector


def u(c, order):
    x, y = c[:, 0], c[:, 1]
    if order == 1:
        return 1 + 2 * x - 3 * y
    return 1 + 2 * x - 3 * y + x * y - 2 * x**2 + y**2


defect = False
for elemType, isOrganised in [
    (ElemType.TRI3, False),  # plain unstructured gmsh meshes
    (ElemType.TRI6, False),
    (ElemType.TRI3, True),  # nested structured meshes
    (ElemType.QUAD4, True),
    (ElemType.QUAD9, True),
]:
    old = Domain(Point(0, 0), Point(4, 3), 1.0).Mesh_2D([], elemType, isOrganised=isOrganised)
    new = Domain(Point(0, 0), Point(4, 3), 0.5).Mesh_2D([], elemType, isOrganised=isOrganised)
    order = old.groupElem.order

    proj = Calc_projector(old, new)

    exact = u(new.coord, order)
    projected = proj @ u(old.coord, order)
    evaluated = old.Evaluate_dofsValues_at_coordinates(
        new.coord, u(old.coord, order)
    ).ravel()
    rowSum = np.asarray(proj.sum(axis=1)).ravel()

    errProj = np.abs(projected - exact)
    errEval = np.abs(evaluated - exact)
    bad = np.flatnonzero(errProj > 1e-8)
    print(
        f"{elemType.value:5s} organised={isOrganised!s:5s} old Nn={old.Nn:3d} new Nn={new.Nn:3d} | "
        f"row sums in [{rowSum.min():.3f}, {rowSum.max():.3f}] | "
        f"max err projector {errProj.max():.3e} ({bad.size} nodes) | "
        f"max err Evaluate_dofsValues_at_coordinates {errEval.max():.3e}"
    )
    for n in bad[:3]:
        x, y, _ = new.coord[n]
        print(
            f"        new node {n:3d} at ({x:.4f}, {y:.4f}): projected {projected[n]: .6f}"
            f"  exact {exact[n]: .6f}  row sum {rowSum[n]:.3f}"
        )
    if bad.size > 0 or np.abs(rowSum - 1).max() > 1e-8:
        defect = True

print()
if defect:
    print("DEFECT: Calc_projector does not reproduce a polynomial of the element's order at new")
    print("        nodes lying on interior edges of the old mesh (rows of the projector sum to 2+).")
    sys.exit(1)
print("no defect")
sys.exit(0)
