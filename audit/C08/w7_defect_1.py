"""C08 defect 1 (UNCHANGED library) -- Mesh.Evaluate_dofsValues_at_coordinates(..., elements=...)
returns wrong values when the optional `elements` hint is not sorted in ascending order.

Mechanism: _GroupElem._Get_Mapping visits the candidate elements in the order it is given and
overwrites the reference coordinates (xi, eta) of a point each time another element contains it,
so a point on a node / an edge keeps the reference coordinates of the element visited LAST.
Mesh.Evaluate_dofsValues_at_coordinates then chooses the owning element of such a point as the one
with the HIGHEST index ("Don't remove [::-1], it must start at the end !"), because the arrays
detectedElements_e / connect_e_n are indexed by element number. The two choices agree only when
the candidates are visited in ascending order, which _Get_nearby_elements guarantees (np.unique)
but a user supplied `elements` array does not. The nodal values of one element are then combined
with the shape functions evaluated at the reference coordinates of another element.

`elements` is documented as "elements that may contain the specified coordinates to speed up
evaluation": any order is legal. A linear field evaluated at the mesh nodes must be reproduced.

exit 1 when the defect is present.
"""

import sys
import numpy as np
from EasyFEA import Mesher, ElemType
from EasyFEA.Geoms import Points

contour = Points([(0, 0), (4, 0), (4.5, 3.2), (1, 4), (-0.3, 1)], 0.9)
mesh = Mesher().Mesh_2D(contour, [], ElemType.TRI3)
x, y, _ = mesh.coord.T
u = 1 + 2 * x - 3 * y

asc = np.arange(mesh.Ne)
v_asc = mesh.Evaluate_dofsValues_at_coordinates(mesh.coord, u, elements=asc).ravel()
v_desc = mesh.Evaluate_dofsValues_at_coordinates(mesh.coord, u, elements=asc[::-1]).ravel()
rng = np.random.default_rng(0)
v_perm = mesh.Evaluate_dofsValues_at_coordinates(
    mesh.coord, u, elements=rng.permutation(mesh.Ne)
).ravel()

e_asc, e_desc, e_perm = (np.abs(v - u).max() for v in (v_asc, v_desc, v_perm))
print(f"max error, elements ascending : {e_asc:.3e}")
print(f"max error, elements descending: {e_desc:.3e}")
print(f"max error, elements shuffled  : {e_perm:.3e}")

if max(e_desc, e_perm) > 1e-9:
    print("DEFECT: the result depends on the order of the `elements` hint")
    sys.exit(1)
sys.exit(0)
