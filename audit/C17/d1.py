"""C17 / finding 1 - the history field H of the "History" irreversibility solver is lost
on meshes that carry several element groups of the main dimension (e.g. QUAD4 + TRI3).

Simulations.PhaseField keeps ONE array (__psiP_e_pg / __old_psiP_e_pg) for the history field,
but assembles the damage problem group by group: every group overwrites the array, so after
Save_Iter() only the history of the LAST group survives. For the other group(s) the stored
array has the wrong shape and is silently replaced by zeros ("the mesh has been changed"),
i.e. H := psi+(current u).  On unloading H drops and the damage heals.

Reference: the same load / unload history on the same geometry
  - H reported at each saved step (simu.Result("psiP", nodeValues=False)) must never decrease,
  - and an independent running maximum of the positive energy, rebuilt here from the public model
    API for each group (max over the displacements used by the damage assemblies), must be
    reproduced by the library.
A single-group mesh (all TRI3) run through exactly the same code is used as a control.

exit 1 when the defect manifests, 0 otherwise.
"""

import sys
import numpy as np

from EasyFEA import Models, Simulations, ElemType
from EasyFEA.FEM import GroupElemFactory, Mesh, MatrixType

np.seterr(all="ignore")

L, H = 1.5, 1.0
NX, NY = 6, 4


def build_mesh(mixed: bool) -> Mesh:
    """structured mesh of [0,L]x[0,H]; mixed: left half QUAD4, right half TRI3."""
    xs = np.linspace(0, L, NX + 1)
    ys = np.linspace(0, H, NY + 1)
    X, Y = np.meshgrid(xs, ys, indexing="ij")
    coords = np.stack([X.ravel(), Y.ravel(), 0 * X.ravel()], 1)

    def nid(i, j):
        return i * (NY + 1) + j

    quads, tris = [], []
    for i in range(NX):
        for j in range(NY):
            a, b, c, d = nid(i, j), nid(i + 1, j), nid(i + 1, j + 1), nid(i, j + 1)
            if mixed and i < NX // 2:
                quads.append([a, b, c, d])
            else:
                tris.append([a, b, c])
                tris.append([a, c, d])
    groups = {}
    if quads:
        groups[ElemType.QUAD4] = GroupElemFactory.Create(
            ElemType.QUAD4, np.array(quads), coords
        )
    groups[ElemType.TRI3] = GroupElemFactory.Create(
        ElemType.TRI3, np.array(tris), coords
    )
    return Mesh(groups)


def run(mesh: Mesh, regu: str):
    mat = Models.Elastic.Isotropic(2, E=210e3, v=0.3, planeStress=False)
    pfm = Models.PhaseField(
        mat, "Miehe", regu, Gc=2.7, l0=0.15, solver=Models.PhaseField.SolverType.History
    )
    simu = Simulations.PhaseField(mesh, pfm)

    nodes0 = mesh.Nodes_Conditions(lambda x, y, z: y == 0)
    nodes1 = mesh.Nodes_Conditions(lambda x, y, z: y == H)

    # load up, then unload completely
    loads = list(np.linspace(0, 0.02, 6)) + list(np.linspace(0.02, 0, 6))[1:]

    list_group = mesh.Get_list_groupElem()
    # independent history: running max of psi+ per group, evaluated (as the library does with
    # tolConv=1) on the displacement that is current when the damage problem is assembled
    H_ref = [None] * len(list_group)

    H_lib, d_lib, H_ref_hist = [], [], []
    for u in loads:
        u_before = simu.displacement.copy()  # displacement used by the damage assembly
        for g, group in enumerate(list_group):
            eps = mat.Calc_Epsilon_e_pg(u_before, group, MatrixType.mass)
            psiP = np.asarray(pfm.Calc_psi_e_pg(eps)[0])
            H_ref[g] = psiP if H_ref[g] is None else np.maximum(H_ref[g], psiP)

        simu.Bc_Init()
        simu.add_dirichlet(nodes0, [0, 0], ["x", "y"])
        simu.add_dirichlet(nodes1, [u], ["y"])
        simu.Solve(tolConv=1.0)  # one staggered pass
        simu.Save_Iter()

        # after the step: H must also dominate psi+(u_new) -> Result("psiP") returns max(H, psi+(u_new))
        H_now = []
        for g, group in enumerate(list_group):
            eps = mat.Calc_Epsilon_e_pg(simu.displacement, group, MatrixType.mass)
            psiP = np.asarray(pfm.Calc_psi_e_pg(eps)[0])
            H_now.append(np.maximum(H_ref[g], psiP).mean(1))
        H_ref_hist.append(np.concatenate(H_now))

        H_lib.append(np.asarray(simu.Result("psiP", nodeValues=False), dtype=float).copy())
        d_lib.append(simu.damage.copy())

    return np.array(H_lib), np.array(d_lib), np.array(H_ref_hist)


def main() -> int:
    defect = False
    for regu in ("AT2", "AT1"):
        for name, mixed in (("single group (TRI3)      ", False), ("two groups (QUAD4 + TRI3)", True)):
            mesh = build_mesh(mixed)
            H_lib, d_lib, H_ref = run(mesh, regu)
            Hmax = H_lib.max()
            drop_H = -np.diff(H_lib, axis=0).min() / Hmax  # largest relative decrease of H
            err_ref = np.abs(H_lib - H_ref).max() / Hmax
            heal = -np.diff(d_lib, axis=0).min()  # largest nodal decrease of the damage
            print(
                f"{regu} {name}: largest decrease of H between saved steps = {drop_H:.3e} * Hmax,"
                f" |H_lib - H_ref|max = {err_ref:.3e} * Hmax,"
                f" largest nodal decrease of the damage = {heal:.3f}"
            )
            bad = drop_H > 1e-9 or err_ref > 1e-9
            if bad:
                # say which group lost its history
                Ne_groups = [g.Ne for g in mesh.Get_list_groupElem()]
                types = [str(g.elemType) for g in mesh.Get_list_groupElem()]
                start = 0
                for t, ne in zip(types, Ne_groups):
                    sl = slice(start, start + ne)
                    dg = -np.diff(H_lib[:, sl], axis=0).min() / Hmax
                    print(f"      group {t}: largest decrease of H = {dg:.3e} * Hmax")
                    start += ne
            if mixed and bad:
                defect = True
            if not mixed and bad:
                print("      (unexpected: the single-group control fails too)")
                defect = True

    if defect:
        print(
            "DEFECT: with several element groups the history field H decreases on unloading "
            "(history of all groups but the last one is dropped) and the damage heals."
        )
        return 1
    print("no defect: H never decreases and matches the independent running maximum.")
    return 0


if __name__ == "__main__":
    sys.exit(main())
