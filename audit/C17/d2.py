"""C17 / finding 2 - heterogeneous elastic material: 12 of the 14 splits cannot be evaluated.

An Isotropic material accepts E / v given as arrays (one value per element); material.C is then
(Ne, D, D) and material.isHeterogeneous is True.  Models.PhaseField supports this explicitly in the
Amor and Miehe branches (FeArray.broadcast(mu / lambda / bulk, Ne, nPg)), but

  * __Split_Bourdin and __Split_Stress test `self.isHeterogeneous` - which is "Gc is an array" - instead
    of `material.isHeterogeneous`, so C (Ne, D, D) goes through FeArray.asfearray(C, True) and is read as a
    constant 3rd-order tensor -> KeyError: 3 in the next matmul,
  * __Split_Strain (AnisotStrain*) always does FeArray.asfearray(material.C, True),
  * __Split_He multiplies the raw (Ne, D, D) `material.C` with an (Ne, nPg, D, D) FeArray.

So psi+ / psi- / sigma+ / sigma- (and Simulations.PhaseField.Solve) cannot be obtained for a legal material,
for Bourdin, He, Stress, Zhang, AnisotStrain(4) and AnisotStress(4).  Giving Gc as an array as well
"repairs" Bourdin / Stress / Zhang / AnisotStress*, which shows that the wrong flag is tested.

Reference: the same strains evaluated element by element with a homogeneous material (E_e, v_e), and
the undamaged stress / energy C_e : eps.

exit 1 when the defect manifests, 0 otherwise.
"""

import sys
import numpy as np

from EasyFEA import Models

np.seterr(all="ignore")
PF = Models.PhaseField


def evaluate(dim: int, planeStress: bool, Gc):
    rng = np.random.default_rng(17)
    Ne, nPg = 5, 4
    D = 3 if dim == 2 else 6
    Eps = rng.normal(size=(Ne, nPg, D)) * 1e-3  # generic strains (distinct principal values)
    E_e = np.linspace(1e5, 2e5, Ne)
    v_e = np.linspace(0.2, 0.35, Ne)

    mat = Models.Elastic.Isotropic(dim, E=E_e, v=v_e, planeStress=planeStress)
    assert mat.isHeterogeneous and mat.C.shape == (Ne, D, D)
    C_e = mat.C
    Sig = np.einsum("eij,epj->epi", C_e, Eps)
    Psi = 0.5 * (Sig * Eps).sum(-1)

    status = {}
    for split in PF.Get_splits():
        model = PF(mat, split, "AT2", Gc, 0.1)
        try:
            sP, sM = model.Calc_Sigma_e_pg(Eps.copy())
            pP, pM = model.Calc_psi_e_pg(Eps.copy())
        except Exception as err:  # noqa
            status[str(split)] = f"CRASH {type(err).__name__}: {str(err)[:50]}"
            continue
        sP, sM, pP, pM = (np.asarray(a, dtype=float) for a in (sP, sM, pP, pM))

        # reference: element by element with a homogeneous material
        ref_pP = np.zeros((Ne, nPg))
        ref_sP = np.zeros((Ne, nPg, D))
        for e in range(Ne):
            mat_e = Models.Elastic.Isotropic(dim, E=E_e[e], v=v_e[e], planeStress=planeStress)
            model_e = PF(mat_e, split, "AT2", 1.0, 0.1)
            ref_pP[e] = np.asarray(model_e.Calc_psi_e_pg(Eps[e : e + 1].copy())[0])[0]
            ref_sP[e] = np.asarray(model_e.Calc_Sigma_e_pg(Eps[e : e + 1].copy())[0])[0]

        ok = (
            sP.shape == Eps.shape
            and pP.shape == (Ne, nPg)
            and np.all(np.isfinite(sP)) and np.all(np.isfinite(pP))
            and np.abs(sP + sM - Sig).max() <= 1e-9 * np.abs(Sig).max()
            and np.abs(pP + pM - Psi).max() <= 1e-9 * np.abs(Psi).max()
            and np.abs(pP - ref_pP).max() <= 1e-9 * np.abs(Psi).max()
            and np.abs(sP - ref_sP).max() <= 1e-9 * np.abs(Sig).max()
        )
        status[str(split)] = "ok" if ok else "WRONG VALUES"
    return status


def simulation_check() -> str:
    """the same thing seen from Simulations.PhaseField (Bourdin, the simplest split)."""
    from EasyFEA import Simulations, Mesher, ElemType
    from EasyFEA.Geoms import Domain, Point

    mesh = Mesher().Mesh_2D(Domain(Point(), Point(1.0, 1.0), 0.25), [], ElemType.TRI3)
    E_e = np.linspace(1e5, 2e5, mesh.Ne)
    mat = Models.Elastic.Isotropic(2, E=E_e, v=0.3, planeStress=False)
    out = []
    for split in ("Miehe", "Bourdin"):
        pfm = PF(mat, split, "AT2", 2.7, 0.15)
        simu = Simulations.PhaseField(mesh, pfm)
        simu.add_dirichlet(mesh.Nodes_Conditions(lambda x, y, z: y == 0), [0, 0], ["x", "y"])
        simu.add_dirichlet(mesh.Nodes_Conditions(lambda x, y, z: y == 1), [1e-3], ["y"])
        try:
            simu.Solve()
            out.append(f"{split}: Solve ok (max damage {simu.damage.max():.3e})")
        except Exception as err:  # noqa
            out.append(f"{split}: Solve CRASH {type(err).__name__}: {str(err)[:40]}")
    return " | ".join(out)


def main() -> int:
    defect = False
    for dim, ps in ((2, False), (2, True), (3, False)):
        status = evaluate(dim, ps, Gc=1.0)
        bad = [s for s, v in status.items() if v != "ok"]
        print(f"dim={dim} planeStress={ps}, heterogeneous E,v (per element), scalar Gc:")
        for s, v in status.items():
            print(f"    {s:22s} {v}")
        if bad:
            defect = True

    # the flag that is tested is the one of Gc: with Gc given per element some splits come back
    status = evaluate(2, False, Gc=np.linspace(1.0, 2.0, 5))
    back = [s for s, v in status.items() if v == "ok"]
    print("same material, Gc given per element as well -> splits that now work:", ", ".join(back))

    print("Simulations.PhaseField, heterogeneous E:", simulation_check())

    if defect:
        print(
            "DEFECT: with a heterogeneous (per element) isotropic material the positive / negative "
            "stresses and energies cannot be obtained for most splits (undocumented KeyError / ValueError)."
        )
        return 1
    print("no defect: every split partitions stress and energy for the heterogeneous material.")
    return 0


if __name__ == "__main__":
    sys.exit(main())
