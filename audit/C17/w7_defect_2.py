"""DEFECT of the UNCHANGED library (property C17, 'for all configurations') - loud, not silent.

An Isotropic law whose moduli are per-element fields (mat.isHeterogeneous, C of shape (Ne, D, D)) is accepted by
Models.PhaseField, and works with the Amor and Miehe splits, but the other splits cannot be evaluated:

  * PhaseField.__Split_Bourdin / __Split_Stress decide how to broadcast C with `self.isHeterogeneous`, which is
    the heterogeneity of Gc (isinstance(self.Gc, np.ndarray)), not the one of the material: with a scalar Gc the
    (Ne, D, D) stiffness goes through FeArray.asfearray(C, True) and the next product raises KeyError: 3
    (Bourdin, Stress, Zhang, AnisotStress*). Passing Gc as an array makes the very same call work.
  * __Split_Strain ('Strain' splits) and __Split_He never broadcast a heterogeneous C: KeyError: 3 whatever Gc is.

So the partition 'sigma = sigma+ + sigma-' cannot even be evaluated for 10 of the 14 splits on such a material.

exit 1 when the defect is present, 0 otherwise.
"""

import sys
import numpy as np

from EasyFEA.Models.Elastic import Isotropic
from EasyFEA.Models._phasefield import PhaseField
from EasyFEA.FEM import FeArray

Ne, nPg = 7, 3
eps = np.random.default_rng(0).normal(size=(Ne, nPg, 3)) * 1e-3
mat = Isotropic(2, E=np.linspace(1, 2, Ne) * 210e9, v=np.linspace(0.2, 0.35, Ne), planeStress=True)
assert mat.isHeterogeneous
sig = np.einsum("eij,epj->epi", mat.C, eps)

bad = []
for Gc, label in ((1.0, "scalar Gc"), (np.ones(Ne), "Gc per element")):
    for split in PhaseField.Get_splits():
        pfm = PhaseField(mat, split, "AT2", Gc, 1)
        try:
            sP, sM = pfm.Calc_Sigma_e_pg(FeArray.asfearray(eps.copy()))
        except Exception as err:
            bad.append(f"{label:15s} {str(split):21s}: {type(err).__name__}: {err}")
            continue
        e = np.abs(np.asarray(sP) + np.asarray(sM) - sig).max() / np.abs(sig).max()
        if e > 1e-9:
            bad.append(f"{label:15s} {str(split):21s}: parts do not add up ({e:.1e})")

if bad:
    print("heterogeneous isotropic material:")
    for b in bad:
        print(" -", b)
    sys.exit(1)
print("no defect")
sys.exit(0)
