"""DEFECT of the UNCHANGED library (property C17) - 3D spectral splits on strain states with a repeated
principal value (uniaxial, equibiaxial, ... i.e. the states of an unloaded / uniaxially loaded region).

EasyFEA/Models/_phasefield.py, PhaseField._Eigen_values_vectors_projectors, 3D closed form (Lode angle):

  (a) theta = 1/3 arccos(arg) with arg = (2 I1^3 - 9 I1 I2 + 27 I3) / (2 g^(3/2)) and no clipping. For a tensor with a
      double eigenvalue |arg| = 1 in exact arithmetic; in floating point arg = 1.0000000000000002 for plain
      eps = diag(1e-3, 0, 0) -> arccos gives NaN -> eigenvalues, projectors, cP, cM, sigma+/-, psi+/- are all NaN
      (every spectral split: Miehe, He, Stress, Zhang, AnisotStrain*, AnisotStress*).
  (b) when round-off lands on the other side (|arg| slightly < 1, e.g. eps = diag(1, 1, 0) or diag(3.7e-4, 3.7e-4, 0)),
      the tests 'theta == 0' / 'theta == pi/3' are exact, the point is treated as 'three distinct eigenvalues'
      and the projector formula divides by (v2 - v3) ~ 1e-17: finite but wrong projectors; for diag(1,1,0) (no negative
      principal strain) Miehe returns a non zero negative stress and sigma+ is off by ~30 %.
  (c) the cases 2/3/1 are selected per ELEMENT (np.unique(np.where(test)[0])), so one such Gauss point contaminates
      the other Gauss points of its element.

Consequence for a user: a 3D phase-field simulation whose first load step is a uniaxial strain state (or any region with
a repeated principal strain) gets NaN / wrong driving energies.

exit 1 when the defect is present, 0 otherwise.
"""

import sys
import numpy as np

from EasyFEA.Models.Elastic import Isotropic
from EasyFEA.Models._phasefield import PhaseField
from EasyFEA.FEM import FeArray

c = np.sqrt(2)


def to_vec(M):
    return np.stack(
        [M[..., 0, 0], M[..., 1, 1], M[..., 2, 2], c * M[..., 1, 2], c * M[..., 0, 2], c * M[..., 0, 1]], -1
    )


mat = Isotropic(3, E=1.0, v=0.3)
lam, mu = mat.get_lambda(), mat.get_mu()
C = mat.C

states = {
    "uniaxial diag(1e-3,0,0)": np.diag([1e-3, 0, 0]),
    "uniaxial diag(0,0,-1e-3)": np.diag([0, 0, -1e-3]),
    "equibiaxial diag(1,1,0)": np.diag([1.0, 1.0, 0]),
    "equibiaxial diag(3.7e-4,3.7e-4,0)": np.diag([3.7e-4, 3.7e-4, 0]),
    "equibiaxial diag(0.1234,0.1234,0)": np.diag([0.1234, 0.1234, 0]),
}

bad = []
for name, E in states.items():
    E = E.reshape(1, 1, 3, 3)
    eps = to_vec(E)
    sig = np.einsum("ij,epj->epi", C, eps)
    psi = 0.5 * np.einsum("epi,epi->ep", sig, eps)

    # independent reference for Miehe: sigma+ = lam <tr>+ I + 2 mu eps+
    w, v = np.linalg.eigh(E)
    Ep = np.einsum("epik,epk,epjk->epij", v, np.maximum(w, 0), v)
    tr = np.trace(E, axis1=-2, axis2=-1)
    sigP_ref = to_vec(lam * np.maximum(tr, 0)[..., None, None] * np.eye(3) + 2 * mu * Ep)

    for split in ["Miehe", "He", "Zhang", "AnisotStrain", "AnisotStress"]:
        pfm = PhaseField(mat, split, "AT2", 1, 1)
        with np.errstate(all="ignore"):
            sP, sM = pfm.Calc_Sigma_e_pg(FeArray.asfearray(eps.copy()))
            pP, pM = pfm.Calc_psi_e_pg(FeArray.asfearray(eps.copy()))
        sP, sM, pP, pM = (np.asarray(x) for x in (sP, sM, pP, pM))
        if not (np.isfinite(sP).all() and np.isfinite(sM).all() and np.isfinite(pP).all()):
            bad.append(f"{name:36s} {split:13s}: non finite sigma+/- and psi+/-")
            continue
        e_sum = np.abs(sP + sM - sig).max() / np.abs(sig).max()
        e_psi = np.abs(pP + pM - psi).max() / np.abs(psi).max()
        if e_sum > 1e-9 or e_psi > 1e-9:
            bad.append(f"{name:36s} {split:13s}: parts do not add up ({e_sum:.1e}, {e_psi:.1e})")
        if split == "Miehe":
            e_ref = np.abs(sP - sigP_ref).max() / np.abs(sig).max()
            if e_ref > 1e-8:
                bad.append(
                    f"{name:36s} {split:13s}: sigma+ differs from the eigen-decomposition by {e_ref:.2e} "
                    f"(sigma- = {sM.ravel()[:3]} although no principal strain is negative)"
                )

# (d) user level: a 3D block in confined uniaxial strain (lateral displacements blocked), Miehe split, History solver
from EasyFEA import Models, Simulations
from EasyFEA.Geoms import Domain

mesh = Domain((0, 0), (1, 1), 0.5).Mesh_Extrude([], [0, 0, 1], [2], "HEXA8")
pfm = Models.PhaseField(Models.Elastic.Isotropic(3, E=210000, v=0.3), "Miehe", "AT2", 2.7, 0.2)
simu = Simulations.PhaseField(mesh, pfm)
top = mesh.Nodes_Conditions(lambda x, y, z: z == 1)
bottom = mesh.Nodes_Conditions(lambda x, y, z: z == 0)
for uz in [0, 1e-3, 2e-3]:
    simu.Bc_Init()
    simu.add_dirichlet(mesh.nodes, [0, 0], ["x", "y"])
    simu.add_dirichlet(bottom, [0], ["z"])
    simu.add_dirichlet(top, [uz], ["z"])
    import warnings

    with np.errstate(all="ignore"), warnings.catch_warnings():
        warnings.simplefilter("ignore")
        u, d, _ = simu.Solve()
    simu.Save_Iter()
    if not (np.isfinite(u).all() and np.isfinite(d).all()):
        bad.append(f"simulation of a block in confined uniaxial strain, uz = {uz}: displacement / damage are NaN")
        break

if bad:
    print("3D splits on strain states with a repeated principal value:")
    for b in bad:
        print(" -", b)
    sys.exit(1)
print("no defect")
sys.exit(0)
