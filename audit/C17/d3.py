"""C17 / finding 3 - the history field survives a change of mesh when the new mesh happens to have the
same number of elements: an unloaded body gets damaged.

`simu.mesh = newMesh` re-initialises the boundary conditions and the solutions (displacement = 0,
damage = 0).  The history field H of the "History" solver (Simulations.PhaseField.__old_psiP_e_pg) is
not re-initialised there; it is only dropped later, in __Calc_psiPlus_e_pg, when its SHAPE differs from
the new (Ne, nPg).  With a new mesh that has the same (Ne, nPg) - another geometry meshed with the same
structured pattern, moved nodes, ... - the H of the old mesh is applied, Gauss point by Gauss point, to the
new one.  A solve without any loading then returns a large damage although displacement and damage
were reset to zero ("with no loading the damage stays zero" is violated; H does not belong to the state).

Reference: a fresh simulation on the new mesh with the same (zero) loading -> damage == 0 exactly;
control: a new mesh with a different number of elements -> damage == 0 as well.

exit 1 when the defect manifests, 0 otherwise.
"""

import sys
import numpy as np

from EasyFEA import Models, Simulations, Mesher, ElemType
from EasyFEA.Geoms import Domain, Point

np.seterr(all="ignore")


def make_mesh(Lx: float, h: float):
    return Mesher().Mesh_2D(
        Domain(Point(), Point(Lx, 1.0), h), [], ElemType.QUAD4, isOrganised=True
    )


def step(simu, u_top: float):
    mesh = simu.mesh
    simu.Bc_Init()
    simu.add_dirichlet(mesh.Nodes_Conditions(lambda x, y, z: y == 0), [0, 0], ["x", "y"])
    simu.add_dirichlet(mesh.Nodes_Conditions(lambda x, y, z: y == 1.0), [u_top], ["y"])
    simu.Solve()
    simu.Save_Iter()


def new_simu(mesh, regu):
    mat = Models.Elastic.Isotropic(2, E=210e3, v=0.3, planeStress=False)
    pfm = Models.PhaseField(mat, "Miehe", regu, Gc=2.7, l0=0.15, solver="History")
    return Simulations.PhaseField(mesh, pfm)


def main() -> int:
    defect = False
    for regu in ("AT2", "AT1"):
        meshA = make_mesh(1.5, 0.25)
        meshB = make_mesh(1.6, 0.25)  # other geometry, same number of elements
        meshC = make_mesh(1.6, 0.2)  # other geometry, other number of elements
        assert meshA.Ne == meshB.Ne != meshC.Ne

        res = {}
        for name, mesh2 in (("same Ne", meshB), ("other Ne", meshC)):
            simu = new_simu(meshA, regu)
            for u in (0.005, 0.010, 0.015):
                step(simu, u)
            dA = simu.damage.max()

            simu.mesh = mesh2  # documented effect: Bc_Init + solutions initialised
            assert np.abs(simu.displacement).max() == 0 and np.abs(simu.damage).max() == 0
            step(simu, 0.0)  # no loading at all
            step(simu, 0.0)
            res[name] = (dA, np.abs(simu.damage).max(), np.abs(simu.displacement).max())

        ref = new_simu(meshB, regu)
        step(ref, 0.0)
        step(ref, 0.0)
        d_ref = np.abs(ref.damage).max()

        print(f"{regu}: fresh simulation on mesh B, no loading        : max damage = {d_ref:.3e}")
        for name, (dA, d2, u2) in res.items():
            print(
                f"{regu}: mesh A loaded (max damage {dA:.3f}), then simu.mesh = new mesh ({name:8s}),"
                f" no loading: max damage = {d2:.3e} (max |u| = {u2:.1e})"
            )
        if d_ref != 0 or res["same Ne"][1] > 1e-12 or res["other Ne"][1] > 1e-12:
            defect = True

    if defect:
        print(
            "DEFECT: after the mesh is replaced (solutions reset to zero) the old history field is still "
            "applied when the shapes coincide: damage appears without any loading."
        )
        return 1
    print("no defect: the damage stays zero without loading.")
    return 0


if __name__ == "__main__":
    sys.exit(main())
