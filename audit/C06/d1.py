"""C06 / d1 : Get_ddN_e_pg (second derivatives of the shape functions in physical coordinates)
is only right on elements whose Jacobian matrix is diagonal and constant.

_GroupElem.Get_ddN_e_pg documents its result as

    [ N1,xx ... Nn,xx ]
    [ N1,yy ... Nn,yy ]      "Second derivatives of the shape functions in physical (x, y, z) coordinates"

Reference used here: a quadratic field u(x, y) = x^2 + 3 x y - 2 y^2 is reproduced exactly by every
second-order element with straight, evenly noded sides (affine map), hence
    sum_i N_i,xx u_i = 2      and     sum_i N_i,yy u_i = -4      at every point of every element.
The first derivatives (Get_dN_e_pg) are checked the same way, as a control: they are right.

Exit code 1 when the defect manifests, 0 otherwise.
"""

import sys
import numpy as np

from EasyFEA import ElemType
from EasyFEA.FEM import MatrixType, GroupElemFactory
from EasyFEA.Geoms import Domain

matrixType = MatrixType.mass


def u(x, y):
    return x**2 + 3 * x * y - 2 * y**2


def check(groupElem, label):
    """returns (error on first derivatives, error on second derivatives)."""
    coord = groupElem.coord  # (Nn, 3)
    connect = groupElem.connect
    u_e = u(coord[:, 0], coord[:, 1])[connect]  # (Ne, nPe)

    x_e_pg = np.asarray(groupElem.Get_GaussCoordinates_e_pg(matrixType))  # (Ne, nPg, 3)
    dN = np.asarray(groupElem.Get_dN_e_pg(matrixType))  # (Ne, nPg, dim, nPe)
    ddN = np.asarray(groupElem.Get_ddN_e_pg(matrixType))  # (Ne, nPg, dim, nPe)

    grad = np.einsum("epdn,en->epd", dN, u_e)
    x, y = x_e_pg[..., 0], x_e_pg[..., 1]
    grad_ref = np.stack([2 * x + 3 * y, 3 * x - 4 * y], axis=-1)
    err1 = np.abs(grad - grad_ref).max()

    second = np.einsum("epdn,en->epd", ddN, u_e)  # (u,xx  u,yy)
    err_e = np.abs(second - np.array([2.0, -4.0])).max(axis=(1, 2))
    err2 = err_e.max()
    nBad = int((err_e > 1e-8).sum())
    worst = int(np.argmax(err_e))
    print(
        f"{label:34s} Ne={groupElem.Ne:3d}  err(u,x u,y)={err1:.1e}   err(u,xx u,yy)={err2:.3e}"
        f"   wrong elements: {nBad}/{groupElem.Ne}   e.g. element {worst}: (u,xx, u,yy) = {second[worst, 0]}"
    )
    return err1, err2


def single_element(elemType, A):
    """one element, image of the reference element by the affine map xi -> A xi."""
    nPe, dim = GroupElemFactory.DICT_ELEMTYPE[elemType][1:3]
    dummy = GroupElemFactory.Create(elemType, np.arange(nPe).reshape(1, -1), np.zeros((nPe, 3)))
    local = np.asarray(dummy.Get_Local_Coords(), dtype=float)
    coord = np.zeros((nPe, 3))
    coord[:, :dim] = local @ A.T
    return GroupElemFactory.Create(elemType, np.arange(nPe).reshape(1, -1), coord)


failed = False

print("--- control: elements whose sides are parallel to the axes (diagonal Jacobian matrix)")
for elemType in [ElemType.TRI6, ElemType.QUAD8, ElemType.QUAD9]:
    e1, e2 = check(single_element(elemType, np.diag([2.0, 3.0])), f"{elemType} scaled by (2, 3)")
    assert e1 < 1e-10 and e2 < 1e-10, "control failed"

print("--- the same elements, rotated by 30 degrees / sheared (still affine, still exact for u)")
th = np.pi / 6
R = np.array([[np.cos(th), -np.sin(th)], [np.sin(th), np.cos(th)]])
S = np.array([[1.0, 0.5], [0.0, 1.0]])
for elemType in [ElemType.TRI6, ElemType.QUAD8, ElemType.QUAD9]:
    for name, A in [("rotated 30 deg", R), ("sheared", S)]:
        e1, e2 = check(single_element(elemType, A), f"{elemType} {name}")
        assert e1 < 1e-10, "first derivatives are expected to be right"
        failed |= e2 > 1e-6

print("--- an ordinary unstructured TRI6 mesh of the unit square made by the mesher")
mesh = Domain((0, 0), (1, 1), 1 / 4).Mesh_2D([], ElemType.TRI6)
e1, e2 = check(mesh.groupElem, "Domain.Mesh_2D TRI6")
assert e1 < 1e-9, "first derivatives are expected to be right"
failed |= e2 > 1e-6

if failed:
    print(
        "\nDEFECT: Get_ddN_e_pg does not return N,xx / N,yy on elements whose Jacobian matrix is not diagonal "
        "(exact values 2 and -4 missed by O(1))."
    )
    sys.exit(1)
print("\nno defect observed")
sys.exit(0)
