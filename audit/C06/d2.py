"""C06 / d2 : the Hermite functions of the Euler-Bernoulli elements with interior nodes (SEG3, SEG4, SEG5)
interpolate the nodal slope only when the interior nodes are evenly spaced.

The reference tables psi_i(xi) have d(psi_i)/d(xi) = 1/2 at their own node. The physical functions
(Get_Hermitian_N_e_pg / dN / ddN / dddN) are obtained by multiplying psi_i by the element length L_e and by
powers of 1 / (dx/dxi) taken at the Gauss points. d(L_e psi_i)/dx at node i is therefore L_e / (2 dx/dxi(node i)),
which is 1 only if dx/dxi = L_e / 2 everywhere, i.e. if the interior nodes sit exactly at 1/2 (SEG3), 1/3, 2/3 (SEG4), ...
The second and third derivatives also drop the d2(xi)/dx2 terms of the chain rule.

Legal input used here: a straight beam meshed by Mesher.Mesh_Beams, whose interior (non-vertex) nodes are then slid
along the beam axis with the public `mesh.coord` setter (the member stays straight, every element keeps a positive
Jacobian, dx/dxi in [0.4, 1.6] * L_e/2).

Independent references
  (A) v(x) = x (a rigid rotation: nodal values x_i, nodal slopes 1) is a polynomial of degree <= 2 in xi on such an
      element, so a Hermite basis that interpolates value and slope reproduces it exactly:
      sum_i Phi_i x_i + Psi_i * 1 = x,  first derivative 1, second and third derivatives 0 at every point.
  (B) simulation: a beam clamped at x = 0 on an imposed rotation theta (uy = 0, rz = theta), no load.
      Exact answer for any straight member: uy = theta * x and rz = theta at every node.
Controls: the same with evenly spaced nodes (exact to round-off), and SEG2 (no interior node).

Exit code 1 when the defect manifests, 0 otherwise.
"""

import sys
import numpy as np

from EasyFEA import Models, Mesher, ElemType, Simulations
from EasyFEA.FEM import MatrixType
from EasyFEA.Geoms import Domain, Line

L, nL = 120.0, 3
theta = 0.01
shift = 0.15  # interior nodes moved by 15 % of the element length towards the first node

mesher = Mesher()
section = mesher.Mesh_2D(Domain((0, 0), (13, 13)), elemType=ElemType.TRI6)


def build(elemType, shift):
    beam = Models.Beam.Isotropic(2, Line((0, 0), (L, 0), L / nL), section, 210000, 0.3)
    mesh = mesher.Mesh_Beams([beam], elemType)
    if shift:
        groupElem = mesh.groupElem
        coord = mesh.coord.copy()
        for nodes in groupElem.connect:
            Le = coord[nodes[1], 0] - coord[nodes[0], 0]
            coord[nodes[2:], 0] -= shift * Le  # interior nodes only
        mesh.coord = coord
    simu = Simulations.Beam(mesh, Models.Beam.BeamStructure([beam]), useTimoshenko=False)
    return mesh, simu


def check(elemType, shift):
    mesh, simu = build(elemType, shift)

    # (A) the physical Hermite functions of the simulation's element group
    groupElem = simu.mesh.groupElem
    nPe = groupElem.nPe
    x_n = groupElem.coord[:, 0]
    x_e_pg = np.asarray(groupElem.Get_GaussCoordinates_e_pg(MatrixType.beam))[..., 0]
    dofs_e = np.empty((groupElem.Ne, 2 * nPe))
    dofs_e[:, 0::2] = x_n[groupElem.connect]  # nodal values of v = x
    dofs_e[:, 1::2] = 1.0  # nodal slopes of v = x
    tables = [
        groupElem.Get_Hermitian_N_e_pg(),
        groupElem.Get_Hermitian_dN_e_pg(),
        groupElem.Get_Hermitian_ddN_e_pg(),
        groupElem.Get_Hermitian_dddN_e_pg(),
    ]
    refs = [x_e_pg, np.ones_like(x_e_pg), np.zeros_like(x_e_pg), np.zeros_like(x_e_pg)]
    scales = [L, 1.0, 1 / L, 1 / L**2]
    errA = [
        np.abs(np.einsum("epn,en->ep", np.asarray(t)[:, :, 0, :], dofs_e) - r).max() / s
        for t, r, s in zip(tables, refs, scales)
    ]

    # (B) imposed rotation of the clamped end, no load
    simu.add_dirichlet(mesh.Nodes_Point((0, 0)), [0, 0, theta], ["x", "y", "rz"])
    simu.Solve()
    x = simu.mesh.coord[:, 0]
    err_uy = np.abs(simu.Result("uy") - theta * x).max() / (theta * L)
    err_rz = np.abs(simu.Result("rz") - theta).max() / theta

    print(
        f"{elemType}  interior nodes {'moved by %.2f Le' % shift if shift else 'evenly spaced':16s}"
        f"  (A) v=x: err v {errA[0]:.1e}, v' {errA[1]:.1e}, v'' {errA[2]:.1e}, v''' {errA[3]:.1e}"
        f"   (B) rigid rotation: err uy {err_uy:.1e}, err rz {err_rz:.1e}"
    )
    return max(errA), err_uy


failed = False
for elemType in [ElemType.SEG2, ElemType.SEG3, ElemType.SEG4, ElemType.SEG5]:
    eA, eB = check(elemType, 0.0)
    assert eA < 1e-8 and eB < 1e-8, "control (evenly spaced nodes) failed"
    eA, eB = check(elemType, shift)
    if elemType == ElemType.SEG2:
        assert eA < 1e-8 and eB < 1e-8, "control (SEG2) failed"
    else:
        failed |= (eA > 1e-4) or (eB > 1e-4)

if failed:
    print(
        "\nDEFECT: with interior nodes that are not evenly spaced, the Hermite functions of EULER_BERNOULLI3/4/5 do not "
        "interpolate the nodal slope (a rigid rotation is not reproduced; the solved deflection is wrong by "
        f"{100 * shift / nL:.0f} % of theta*L at the moved nodes)."
    )
    sys.exit(1)
print("\nno defect observed")
sys.exit(0)
