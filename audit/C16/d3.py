"""C16 / d3 -- the energy helper _Simu.Calc_Energy cannot be evaluated on a beam structure with
connections (Lagrange conditions), although its sibling Calc_Reaction can.

docs/howto/use_mpi.md gives the idiom
        K, _, M, _ = simu.Get_K_C_M_F()
        energy = simu.Calc_Energy(K, u) + simu.Calc_Energy(M, v)
and the property promises  deformation energy = 1/2 u' K u.
As soon as a Beam simulation holds Lagrange conditions (add_connection_fixed / _hinged between two
members), Get_K_C_M_F returns matrices augmented by the multiplier rows/columns
((Nn*dof_n + nLagrange)^2) while the solution vector keeps Nn*dof_n entries: Calc_Energy does
`A[dofs] @ x` and raises "matmul: dimension mismatch".  Calc_Reaction was taught to slice
`K[dofs][:, :size]`; Calc_Energy was not.

Reference: Clapeyron, 1/2 F.u for the single tip load (static, linear), and the plain numpy
1/2 u' K[:n, :n] u.  The same frame modelled WITHOUT a connection (one member, no Lagrange
condition) is evaluated first to show that the helper is right otherwise.

exit 1 when the defect manifests, 0 otherwise.
"""

import sys
import numpy as np

from EasyFEA import ElemType, Mesher, Models, Simulations
from EasyFEA.Geoms import Domain, Line, Point

E, v = 200e9, 0.3
F = -1000.0
bad = False


def section(mesher, b, h):
    return mesher.Mesh_2D(Domain(Point(-b / 2, -h / 2), Point(b / 2, h / 2)))


def check(simu, nodesLoad, label):
    global bad
    u = simu.displacement
    K, _, M, _ = simu.Get_K_C_M_F()
    n = u.size
    ref_clapeyron = 0.5 * F * simu.Result("uy")[nodesLoad[0]]
    ref_numpy = 0.5 * u @ (K[:n, :n] @ u)
    print(f"{label}: K is {K.shape}, u is {u.shape}, Lagrange conditions: {len(simu.Bc_Lagrange)}")
    print(f"  1/2 F.u = {ref_clapeyron:.9e}   1/2 u'K[:n,:n]u = {ref_numpy:.9e}")
    try:
        W = simu.Calc_Energy(K, u)
    except Exception as err:  # noqa: BLE001
        print(f"  simu.Calc_Energy(K, u) raised {type(err).__name__}: {err}")
        bad = True
        return
    print(f"  simu.Calc_Energy(K, u) = {W:.9e}")
    if abs(W - ref_clapeyron) > 1e-8 * abs(ref_clapeyron):
        bad = True


# ---- one member, no connection: the helper works -------------------------------------------
mesher = Mesher()
A, C = Point(0, 0), Point(3, 0)
line = Line(A, C, 0.5)
beam = Models.Beam.Isotropic(2, line, section(mesher, 0.1, 0.2), E, v)
mesh = mesher.Mesh_Beams([beam], elemType=ElemType.SEG2)
simu = Simulations.Beam(mesh, Models.Beam.BeamStructure([beam]))
mesh = simu.mesh
simu.add_dirichlet(mesh.Nodes_Point(A), [0, 0, 0], ["x", "y", "rz"])
simu.add_neumann(mesh.Nodes_Point(C), [F], ["y"])
simu.Solve()
check(simu, mesh.Nodes_Point(C), "single member")

# ---- two members joined by a fixed connection (the documented way to build a frame) --------
mesher = Mesher()
A, B, C = Point(0, 0), Point(0, 2), Point(3, 2)
beam1 = Models.Beam.Isotropic(2, Line(A, B, 0.5), section(mesher, 0.1, 0.2), E, v)
beam2 = Models.Beam.Isotropic(2, Line(B, C, 0.5), section(mesher, 0.2, 0.1), E, v)
mesh = mesher.Mesh_Beams([beam1, beam2], elemType=ElemType.SEG2)
simu = Simulations.Beam(mesh, Models.Beam.BeamStructure([beam1, beam2]))
mesh = simu.mesh
simu.add_dirichlet(mesh.Nodes_Point(A), [0, 0, 0], ["x", "y", "rz"])
simu.add_connection_fixed(mesh.Nodes_Point(B))
simu.add_neumann(mesh.Nodes_Point(C), [F], ["y"])
simu.Solve()
# the sibling helper copes with the augmented matrices
dofsA = simu.Bc_dofs_nodes(mesh.Nodes_Point(A), ["x", "y", "rz"])
print("L frame: Calc_Reaction at the clamp =", simu.Calc_Reaction(dofsA), "(fy balances F =", F, ")")
check(simu, mesh.Nodes_Point(C), "L frame with a connection")

if bad:
    print("DEFECT: Calc_Energy(K, u) cannot be evaluated once Lagrange conditions exist.")
    sys.exit(1)
print("no defect observed")
sys.exit(0)
