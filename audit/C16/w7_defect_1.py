"""Defect of the UNCHANGED library (exit 1 when present).

_Simu.Results_Reshape_values decides whether an array holds nodal or element values from its shape
only. On a mesh with as many elements as nodes (Nn == Ne) the decision is impossible, the code falls
in its 'still ambiguous' branch (the comment there acknowledges the case) and
  * nodeValues=True  treats ELEMENT values as nodal ones  -> Result('Sxx', True) returns the raw
    element stresses instead of the average over the elements around each node,
  * nodeValues=False treats NODAL values as element ones  -> Result('ux', False) returns the nodal
    displacements, whereas Result('displacement', False) (flat dof vector, 2*Nn entries, decided
    correctly) returns the element means: the named component is not the component of the vector
    result any more, and the element form of 'ux' is not the mean of its nodes.
Result() knows which kind of array it built, so the ambiguity is not inherent to the named results.

Nn == Ne is not exotic: a structured 2 x 3 TRI3 mesh has 12 nodes and 12 triangles (any nx x ny
structured triangle mesh with (nx-1)(ny-1) == 2; a 1 x 1 x 2 block of cubes cut in 6 tetrahedra
also has 12 / 12).
"""

import sys
import numpy as np

from EasyFEA import Mesher, ElemType, Models, Simulations
from EasyFEA.Geoms import Domain, Point

mesh = Mesher().Mesh_2D(
    Domain(Point(0, 0), Point(2, 3), 1.0), [], ElemType.TRI3, isOrganised=True
)
assert mesh.Nn == mesh.Ne == 12, (mesh.Nn, mesh.Ne)

mat = Models.Elastic.Isotropic(2, E=210000.0, v=0.3, planeStress=True, thickness=1.0)
simu = Simulations.Elastic(mesh, mat)
u = np.random.default_rng(0).normal(size=mesh.Nn * 2)
simu._Set_solutions(simu.problemType, u)

errors = []

# element form: named component vs component of the vector result, and vs the mean of the nodes
ux_e = simu.Result("ux", nodeValues=False)
u_e = simu.Result("displacement", nodeValues=False).reshape(mesh.Ne, -1)
ref_e = np.mean(u.reshape(-1, 2)[mesh.connect, 0], axis=1)
if np.abs(ux_e - u_e[:, 0]).max() > 1e-12:
    errors.append(
        "Result('ux', False) != Result('displacement', False)[:, 0]  "
        f"(max diff {np.abs(ux_e - u_e[:, 0]).max():.3e})"
    )
if np.abs(ux_e - ref_e).max() > 1e-12:
    errors.append("Result('ux', False) is not the mean of ux over the nodes of each element")

# nodal form of an element result
Sxx_e = simu.Result("Sxx", nodeValues=False)
Sxx_n = simu.Result("Sxx", nodeValues=True)
ref_n = mesh.Get_Node_Values(Sxx_e)
if np.abs(Sxx_n - ref_n).max() > 1e-9 * np.abs(ref_n).max():
    errors.append(
        "Result('Sxx', True) is not the average of the surrounding elements "
        f"(it equals the element array itself: {np.array_equal(Sxx_n, Sxx_e)})"
    )

if errors:
    print("defect present (Nn == Ne):")
    for e in errors:
        print("  -", e)
    sys.exit(1)
print("ok")
sys.exit(0)
