"""C16 / d1 -- "Svm" of a 2D plane-strain computation is not the von Mises norm of the stress.

The equivalent stress promised by the property is the von Mises norm of THE stress at each
integration point.  In plane strain the stress tensor has an out-of-plane component
Szz = nu (Sxx + Syy) (isotropic elasticity; after plastic flow whatever the flow rule leaves),
but the 2D branch of Models/_utils.py::__Result_in_Strain_or_Stress_field always evaluates the
plane-STRESS formula sqrt(Sxx^2 + Syy^2 - Sxx Syy + 3 Sxy^2), i.e. takes Szz = 0.

Part A  Simulations.Elastic, Isotropic(2, planeStress=False): homogeneous strain state prescribed
        through Dirichlet conditions on every node; reference = closed form with Szz = nu (Sxx+Syy).
        The plane-stress twin of the same computation (where Szz = 0 is true) is checked to agree.
Part B  Simulations.InElastic, plane strain, perfectly plastic von Mises material stretched far
        beyond yield (uniaxial strain).  The yield condition itself says: von Mises(sigma) = sigma_y
        at every integration point that flows.  Result("Svm") reports several times sigma_y.

exit 1 when the defect manifests, 0 otherwise.
"""

import sys
import numpy as np

from EasyFEA import ElemType, Models, Simulations
from EasyFEA.Geoms import Domain, Point

TOL = 1e-6
bad = False


def vonMises(sxx, syy, szz, sxy):
    return np.sqrt(
        0.5 * ((sxx - syy) ** 2 + (syy - szz) ** 2 + (szz - sxx) ** 2 + 6 * sxy**2)
    )


# --------------------------------------------------------------------------------------
# Part A: linear elasticity, homogeneous strain, plane strain vs plane stress
# --------------------------------------------------------------------------------------
E, nu = 210000.0, 0.3
exx, eyy, gxy = 1.0e-3, -0.4e-3, 0.6e-3  # gxy = 2 exy

mesh = Domain(Point(0, 0), Point(1, 1), 1 / 3).Mesh_2D([], ElemType.TRI3, isOrganised=True)
nodes = mesh.nodes
x, y = mesh.coord[nodes, 0], mesh.coord[nodes, 1]

print("Part A: Simulations.Elastic, homogeneous strain prescribed on every node")
for planeStress in (True, False):
    mat = Models.Elastic.Isotropic(2, E=E, v=nu, planeStress=planeStress)
    simu = Simulations.Elastic(mesh, mat)
    simu.add_dirichlet(
        nodes, [exx * x + 0.5 * gxy * y, 0.5 * gxy * x + eyy * y], ["x", "y"]
    )
    simu.Solve()

    Sxx = simu.Result("Sxx", nodeValues=False)
    Syy = simu.Result("Syy", nodeValues=False)
    Sxy = simu.Result("Sxy", nodeValues=False)
    Svm = simu.Result("Svm", nodeValues=False)

    # independent closed form (Hooke, 3D) for the stress of this strain state
    mu = E / (2 * (1 + nu))
    if planeStress:
        lmbda = E * nu / (1 - nu**2)
    else:
        lmbda = E * nu / ((1 + nu) * (1 - 2 * nu))
    sxx = lmbda * (exx + eyy) + 2 * mu * exx
    syy = lmbda * (exx + eyy) + 2 * mu * eyy
    sxy = mu * gxy
    szz = 0.0 if planeStress else nu * (sxx + syy)
    assert np.allclose(Sxx, sxx) and np.allclose(Syy, syy) and np.allclose(Sxy, sxy)

    ref = vonMises(sxx, syy, szz, sxy)
    err = np.abs(Svm - ref).max() / ref
    name = "plane stress" if planeStress else "plane strain"
    print(
        f"  {name:12s}: Szz = {szz:9.3f}  Result('Svm') = {Svm[0]:9.4f}  "
        f"von Mises(Sxx,Syy,Szz,Sxy) = {ref:9.4f}  rel. error = {err:.2e}"
    )
    if err > TOL:
        bad = True

# --------------------------------------------------------------------------------------
# Part B: plane-strain perfect plasticity; on the yield surface von Mises(sigma) = sigma_y
# --------------------------------------------------------------------------------------
print("Part B: Simulations.InElastic, plane strain, perfectly plastic von Mises material")
sigma_y = 250.0
behavior = Models.InElastic.Behavior(
    2,
    Models.Elastic.Isotropic(3, E=E, v=nu),
    yieldSurface=Models.InElastic.Yield.VonMises(sigma_y),
    planeStress=False,
)
mesh = Domain(Point(0, 0), Point(1, 1), 1 / 3).Mesh_2D([], ElemType.QUAD4, isOrganised=True)
simu = Simulations.InElastic(mesh, behavior)
nodesX0 = mesh.Nodes_Conditions(lambda x, y, z: x == 0)
nodesX1 = mesh.Nodes_Conditions(lambda x, y, z: x == 1)

for eps in (2e-3, 4e-3, 8e-3):  # in uniaxial strain the material yields at about exx = 1.5e-3
    # uniaxial strain exx = eps: no lateral displacement, bar pulled at x = 1 (ux is free inside)
    simu.Bc_Init()
    simu.add_dirichlet(mesh.nodes, [0.0], ["y"])
    simu.add_dirichlet(nodesX0, [0.0], ["x"])
    simu.add_dirichlet(nodesX1, [eps], ["x"])
    simu.Solve()
    simu.Save_Iter()

    p = simu.Result("p", nodeValues=False)  # accumulated plastic strain
    Svm = simu.Result("Svm", nodeValues=False)
    Sxx = simu.Result("Sxx", nodeValues=False)
    Syy = simu.Result("Syy", nodeValues=False)
    Sxy = simu.Result("Sxy", nodeValues=False)
    # uniaxial strain: y and z are equivalent directions (eyy = ezz = 0), hence Szz = Syy
    ref = vonMises(Sxx, Syy, Syy, Sxy)
    flowing = p > 0
    print(
        f"  exx = {eps:.0e}: plastic elements {flowing.sum()}/{p.size}, "
        f"Result('Svm') = {Svm.max():8.3f}, von Mises with Szz = {ref.max():8.3f}, sigma_y = {sigma_y}"
    )
    if flowing.any():
        # sanity of the reference: the full von Mises norm sits on the yield surface
        assert np.allclose(ref[flowing], sigma_y, rtol=1e-6), ref[flowing]
        err = np.abs(Svm[flowing] - sigma_y).max() / sigma_y
        if err > TOL:
            bad = True

if bad:
    print("DEFECT: Result('Svm') in plane strain is not the von Mises norm of the stress.")
    sys.exit(1)
print("no defect observed")
sys.exit(0)
