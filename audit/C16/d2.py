"""C16 / d2 -- 3D beams: bending about the local y axis enters "Sxx" (and "Stress") with the wrong
sign, and "ry'" is minus the derivative of the field "ry" it is named after.

A cantilever along x with a SQUARE section (Iy = Iz) is loaded at its tip
  (1) by Fy only, (2) by Fz only, (3) by Fy and Fz together.
The axial stress of beam theory is  Sxx = E (u' - y v'' - z w'')  =  N/S - Mz y/Iz - (E Iy w'') z/Iy.
Simulations.Beam reports the stress at the section point (y, z) = (sqrt(S), sqrt(S)) (see
_Calc_Sigma_e_pg), a point on the diagonal of the section: mirroring the problem through the plane
y = z maps load case (1) on load case (2) and the point on itself, so both cases must give the SAME
Sxx, and case (3) their sum.  Closed form (tip load F, bending moment F (L - x)):
        Sxx(x) = - F (L - x) sqrt(S) / I       for (1) and for (2),   twice that for (3).
The library returns +F (L - x) sqrt(S) / I for (2) and 0 for (3).

Second symptom of the same sign slip: Result("ry'") (documented "a' denotes da/dx", list
[ux', rx', ry', rz']) is compared with the finite difference of the nodal result "ry" (exact here:
SEG2 Timoshenko elements interpolate ry linearly); "rz'" is checked the same way and is right.

exit 1 when the defect manifests, 0 otherwise.
"""

import sys
import numpy as np

from EasyFEA import ElemType, Mesher, Models, Simulations
from EasyFEA.Geoms import Domain, Line, Point

a = 0.1  # side of the square section
E, v = 200e9, 0.3
L, F = 2.0, 1000.0
TOL = 1e-6
bad = False


def cantilever(load: dict, useTimoshenko: bool):
    mesher = Mesher()
    section = mesher.Mesh_2D(Domain(Point(-a / 2, -a / 2), Point(a / 2, a / 2)))
    line = Line(Point(0, 0, 0), Point(L, 0, 0), L / 8)
    beam = Models.Beam.Isotropic(3, line, section, E, v)  # local axes = global axes
    mesh = mesher.Mesh_Beams([beam], elemType=ElemType.SEG2)
    simu = Simulations.Beam(
        mesh, Models.Beam.BeamStructure([beam]), useTimoshenko=useTimoshenko
    )
    mesh = simu.mesh
    simu.add_dirichlet(mesh.Nodes_Point(Point(0, 0, 0)), [0] * 6, simu.Get_unknowns())
    simu.add_neumann(
        mesh.Nodes_Point(Point(L, 0, 0)), list(load.values()), list(load.keys())
    )
    simu.Solve()
    return simu, beam, mesh


for useTimoshenko in (False, True):
    kind = "Timoshenko" if useTimoshenko else "Euler-Bernoulli"
    print(f"--- {kind}, SEG2, square section {a} x {a}")

    simuY, beam, mesh = cantilever({"y": F}, useTimoshenko)
    simuZ, _, _ = cantilever({"z": F}, useTimoshenko)
    simuYZ, _, _ = cantilever({"y": F, "z": F}, useTimoshenko)

    S, Iy, Iz = beam.area, beam.Iy, beam.Iz
    assert abs(Iy - Iz) < 1e-12 * Iz
    xe = mesh.coord[mesh.connect].mean(1)[:, 0]  # element centres
    ref = -F * (L - xe) * np.sqrt(S) / Iz  # closed form for one load, at (sqrt S, sqrt S)

    Sxx_Y = simuY.Result("Sxx", nodeValues=False)
    Sxx_Z = simuZ.Result("Sxx", nodeValues=False)
    Sxx_YZ = simuYZ.Result("Sxx", nodeValues=False)
    # "Sxx" is component 0 of "Stress" (consistent, so the tensor result is wrong as well)
    assert np.allclose(Sxx_Z, simuZ.Result("Stress", nodeValues=False)[:, 0])

    scale = np.abs(ref).max()
    errY = np.abs(Sxx_Y - ref).max() / scale
    errZ = np.abs(Sxx_Z - ref).max() / scale
    errYZ = np.abs(Sxx_YZ - 2 * ref).max() / scale
    print(f"  element 0      closed form   Result('Sxx')")
    print(f"  Fy only      {ref[0]:14.1f} {Sxx_Y[0]:14.1f}   rel. error {errY:.1e}")
    print(f"  Fz only      {ref[0]:14.1f} {Sxx_Z[0]:14.1f}   rel. error {errZ:.1e}")
    print(f"  Fy and Fz    {2 * ref[0]:14.1f} {Sxx_YZ[0]:14.1f}   rel. error {errYZ:.1e}")
    # physical sanity of the reference: the tip goes up (+z), so the fibre z > 0 is compressed
    assert simuZ.Result("uz").max() > 0 and ref[0] < 0
    if errY > TOL or errZ > TOL or errYZ > TOL:
        bad = True

    # "ry'" / "rz'" against the derivative of the nodal fields "ry" / "rz"
    con = mesh.connect
    x = mesh.coord[:, 0]
    dx = x[con[:, -1]] - x[con[:, 0]]
    for simu, rot in ((simuZ, "ry"), (simuY, "rz")):
        r_n = simu.Result(rot, nodeValues=True)
        fd = (r_n[con[:, -1]] - r_n[con[:, 0]]) / dx  # mean of d(rot)/dx over each element
        named = simu.Result(rot + "'", nodeValues=False)
        err = np.abs(named - fd).max() / np.abs(fd).max()
        print(
            f"  {rot}': Result = {named[0]: .6e}, d({rot})/dx from the nodal field = {fd[0]: .6e}, rel. error {err:.1e}"
        )
        if err > 1e-4:
            bad = True

if bad:
    print("DEFECT: bending about local y enters Sxx / Stress with the wrong sign; ry' = -d(ry)/dx.")
    sys.exit(1)
print("no defect observed")
sys.exit(0)
