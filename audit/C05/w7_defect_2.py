"""C05 / defect 2 (UNCHANGED library): default Newmark does not conserve the energy over the first
step of the "static preload, then release" sequence used by the library's own examples
(examples/Beam/Beam7.py, examples/LinearizedElasticity/Elas9/10, tests/Simulations/hyperelastic_test.py).

Average-acceleration Newmark (beta = 1/4, gamma = 1/2, the default) conserves
1/2 v'Mv + 1/2 u'Ku over a step only if the acceleration it starts from satisfies the equation of
motion, M a_n + K u_n = F_n.  The library never makes a_n consistent: the static (elliptic) solve
leaves a = 0 (`_Solver_Update_solutions` returns `u, None, None`), and
Solver_Set_Hyperbolic_Algorithm does not compute a_0 = M^-1 (F_0 - C v_0 - K u_0) when the analysis
becomes dynamic (there is no public way to do it either: only `_Set_solutions`).  When the preload
is removed the true initial acceleration is -M^-1 K u_0 != 0, the scheme starts from a_0 = 0, and
the first step loses energy (here 1e-4 .. 2e-3 of the total, growing with dt); every later step
conserves it to round-off, and the midpoint scheme, whose u / v update does not read a_n, conserves
it from the first step on.  So "without damping and load, average-acceleration Newmark conserves the
energy exactly for any step size" does not hold for the states the library itself produces
(the clause needs "from a state in dynamic equilibrium", or the library needs a consistent a_0).

exit 1: the first Newmark step changes the energy (defect present);  exit 0: conserved.
"""

import sys
import numpy as np

from EasyFEA import ElemType, Models, Simulations, AlgoType
from EasyFEA.Geoms import Domain


def energies(algo, dt, nstep=6):
    mesh = Domain((0, 0), (4.0, 1.0), 0.5).Mesh_2D([], ElemType.QUAD4, isOrganised=True)
    simu = Simulations.Elastic(mesh, Models.Elastic.Isotropic(2, E=100.0, v=0.3, planeStress=True))
    simu.rho = 2.0
    pt = simu.problemType
    n0 = mesh.Nodes_Conditions(lambda x, y, z: x == 0)
    nL = mesh.Nodes_Conditions(lambda x, y, z: x == 4.0)

    # static preload
    simu.add_dirichlet(n0, [0, 0], ["x", "y"])
    simu.add_surfLoad(nL, [-0.1], ["y"])
    simu.Solve()

    # release: no load, no damping
    simu.Bc_Init()
    simu.add_dirichlet(n0, [0, 0], ["x", "y"])
    simu.Solver_Set_Hyperbolic_Algorithm(dt, algo=algo)
    K, _, M, _ = simu.Get_K_C_M_F()
    E = [simu.Calc_Energy(K, simu._Get_u_n(pt)) + simu.Calc_Energy(M, simu._Get_v_n(pt))]
    for _ in range(nstep):
        simu.Solve()
        E.append(simu.Calc_Energy(K, simu._Get_u_n(pt)) + simu.Calc_Energy(M, simu._Get_v_n(pt)))
    return np.array(E)


def main() -> int:
    bad = 0
    for dt in (0.02, 0.1):
        for algo in (AlgoType.newmark, AlgoType.midpoint):
            E = energies(algo, dt)
            d = np.diff(E) / E[0]
            print(f"{algo:9s} dt = {dt}: relative energy change per step = {np.array2string(d, precision=2)}")
            if np.abs(d).max() > 1e-8:
                bad += 1
    if bad:
        print("DEFECT: average-acceleration Newmark changes the energy of a free, undamped motion (first step after the release: a_0 = 0 is not M^-1(-K u_0))")
        return 1
    print("OK: energy conserved")
    return 0


if __name__ == "__main__":
    sys.exit(main())
