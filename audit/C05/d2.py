"""C05 / d2 - euler_explicit silently drops the values of the Dirichlet conditions.

For the six other algorithms a step returns u^{n+1} that carries the prescribed values on the
constrained dofs and satisfies the discrete equation of motion on the free ones.  With
AlgoType.euler_explicit, _Solver_Apply_Dirichlet replaces the prescribed values by zeros ("the solve
variable is a^n") and _Solver_Update_solutions sets u^{n+1} = u^n + dt v^n on *every* dof, so a prescribed
displacement is never applied: starting from rest with an imposed displacement and no load, the whole
simulation stays identically zero, whatever the number of steps.

Reference: the constraint itself (u = u_D on the constrained dofs after every step), and the same run with
euler_implicit / newmark of the library, which do apply it.
exit 1 when the defect shows, 0 otherwise.
"""
import sys
import numpy as np

from EasyFEA import Models, Simulations, ElemType, AlgoType
from EasyFEA.Geoms import Domain, Point

uD = 0.01
dt = 1e-3  # far below the stability limit h/c ~ 0.1
nSteps = 50

mesh = Domain(Point(0, 0), Point(1, 1), 1 / 3).Mesh_2D([], ElemType.QUAD4, isOrganised=True)
nodes0 = mesh.Nodes_Conditions(lambda x, y, z: x == 0)
nodes1 = mesh.Nodes_Conditions(lambda x, y, z: x == 1)


def run(algo):
    simu = Simulations.Elastic(mesh, Models.Elastic.Isotropic(2, E=10.0, v=0.3, thickness=1.0))
    simu.rho = 2.5
    simu.Solver_Set_Hyperbolic_Algorithm(dt, algo=algo)
    simu.add_dirichlet(nodes0, [0, 0], ["x", "y"])
    simu.add_dirichlet(nodes1, [uD], ["x"])  # imposed displacement, no load
    dofsD = simu.Bc_dofs_nodes(nodes1, ["x"])
    K, C, M, _ = simu.Get_K_C_M_F()
    known = np.unique(simu.Bc_dofs_Dirichlet())
    free = np.setdiff1d(np.arange(mesh.Nn * 2), known)
    errBc, resFree = 0.0, 0.0
    for _ in range(nSteps):
        u_n, v_n = simu.displacement, simu.speed
        simu.Solve()
        u, v, a = simu.displacement, simu.speed, simu.accel
        errBc = max(errBc, np.abs(u[dofsD] - uD).max())
        if algo == AlgoType.euler_explicit:
            # documented relations of the scheme (they do hold)
            r = (M @ a + C @ v_n + K @ u_n)[free]
            resFree = max(resFree, np.abs(r).max(), np.abs(u - (u_n + dt * v_n)).max())
    return errBc, np.abs(u).max(), resFree


bad = False
for algo in [AlgoType.euler_implicit, AlgoType.newmark, AlgoType.midpoint, AlgoType.euler_explicit]:
    errBc, umax, resFree = run(algo)
    print(
        f"{str(algo):15s}: max |u - u_D| on the constrained dofs over {nSteps} steps = {errBc:.3e}"
        f"   (u_D = {uD}),  max |u| at the end = {umax:.3e}"
    )
    if algo == AlgoType.euler_explicit:
        print(f"{'':15s}  (update relations / free-dof equation of euler_explicit hold to {resFree:.1e})")
    if errBc > 1e-8 * uD:
        bad = True

if bad:
    print("DEFECT: euler_explicit ignores the prescribed Dirichlet values (the body never moves).")
    sys.exit(1)
print("no defect")
sys.exit(0)
