"""C05 / d3 - simu.Calc_Energy cannot evaluate 1/2 u'Ku + 1/2 v'Mv on a structure holding Lagrange conditions.

Energy clause of C05: without damping and load the midpoint rule conserves 1/2 v'Mv + 1/2 u'Ku exactly.
The library offers Calc_Energy(A, x) = 1/2 x'Ax for exactly this ("A: e.g. K for the strain energy or M for
the kinetic one; x: dof vector of the full length as the solver leaves it").  On a Beam structure with a
connection (add_connection_* -> Lagrange multipliers) the matrices returned by Get_K_C_M_F() carry the extra
multiplier rows/columns whereas the solver leaves u, v, a with mesh.Nn*dof_n entries: Calc_Energy raises a
ValueError (dimension mismatch).  Calc_Reaction handles the same situation by slicing [:, :size].

Reference: numpy, 1/2 x' A[:N,:N] x.   exit 1 when the defect shows, 0 otherwise.
"""
import sys
import io
import contextlib
import numpy as np

from EasyFEA import Models, Simulations, Mesher, AlgoType
from EasyFEA.Geoms import Domain, Point, Line

with contextlib.redirect_stdout(io.StringIO()):  # the mesher is chatty about beam axes
    section = Domain((0, 0), (1, 2)).Mesh_2D()
    p1, p2, p3 = (0, 0), (5, 0), (5, 4)
    beam1 = Models.Beam.Isotropic(2, Line(p1, p2, 1.0), section, 100.0, 0.3)
    beam2 = Models.Beam.Isotropic(2, Line(p2, p3, 1.0), section, 100.0, 0.3)
    mesh = Mesher().Mesh_Beams([beam1, beam2])
    simu = Simulations.Beam(mesh, Models.Beam.BeamStructure([beam1, beam2]))
simu.rho = 0.7


def conditions(load):
    simu.Bc_Init()
    simu.add_dirichlet(mesh.Nodes_Point(Point(*p1)), [0, 0, 0], ["x", "y", "rz"])
    simu.add_connection_fixed(mesh.Nodes_Point(Point(*p2)))  # rigid joint: 3 Lagrange conditions
    if load:
        simu.add_neumann(mesh.Nodes_Point(Point(*p3)), [1.0, -2.0], ["x", "y"])


# static preload, then release: free, undamped, unloaded vibration with the midpoint rule
conditions(load=True)
simu.Solve()
conditions(load=False)
simu.Solver_Set_Hyperbolic_Algorithm(0.05, algo=AlgoType.midpoint)
simu.Save_Iter()

N = mesh.Nn * simu.Get_dof_n()
K, _, M, _ = simu.Get_K_C_M_F()
print(f"K, M from Get_K_C_M_F(): {K.shape};  displacement left by the solver: {simu.displacement.shape}")

bad = False
E_lib, E_ref = [], []
for step in range(21):
    if step > 0:
        simu.Solve()
        simu.Save_Iter()
    res = simu.Get_results(-1)
    u, v = res["displacement"], res["speed"]
    E_ref.append(0.5 * u @ (K[:N, :N] @ u) + 0.5 * v @ (M[:N, :N] @ v))
    try:
        E_lib.append(simu.Calc_Energy(K, u) + simu.Calc_Energy(M, v))
    except Exception as err:  # noqa
        if not bad:
            print(f"step {step}: simu.Calc_Energy(K, u) raised {type(err).__name__}: {err}")
        bad = True

E_ref = np.array(E_ref)
print(f"reference energy (numpy, sliced matrices): E0 = {E_ref[0]:.6e}, max relative drift over 20 midpoint steps = "
      f"{np.abs(E_ref / E_ref[0] - 1).max():.2e}")
if not bad:
    err = np.abs(np.array(E_lib) - E_ref).max() / E_ref[0]
    print(f"Calc_Energy vs reference: {err:.2e}")
    bad = err > 1e-10

if bad:
    print("DEFECT: the discrete energy cannot be obtained with Calc_Energy once the structure holds Lagrange conditions.")
    sys.exit(1)
print("no defect")
sys.exit(0)
