"""C05 / d1 - parabolic theta-scheme with alpha = 0 (documented as 'Forward Euler') cannot be run.

Solver_Set_Parabolic_Algorithm documents  alpha = 0 -> Forward Euler  (docstring and the table of
docs/api/simulations.md).  The documented update is
        K u^{n+1} + C v^{n+1} = F^{n+1},      u^{n+1} = u^n + dt v^{n+alpha},
        v^{n+alpha} = (1-alpha) v^n + alpha v^{n+1}
For alpha = 0 this is  u^{n+1} = u^n + dt v^n ,  C v^{n+1} = F - K u^{n+1}  (a perfectly well defined
step, computed below with numpy).  The library divides by alpha*dt instead.
exit 1 when the defect shows, 0 otherwise.
"""
import sys
import numpy as np

from EasyFEA import Models, Simulations, ElemType
from EasyFEA.Geoms import Domain, Point


def one_step(alpha, dt=1e-3):
    mesh = Domain(Point(0, 0), Point(1, 1), 1 / 3).Mesh_2D([], ElemType.QUAD4, isOrganised=True)
    simu = Simulations.Thermal(mesh, Models.Thermal(k=2.0, c=3.0, thickness=0.7))
    simu.rho = 2.5

    n0 = mesh.Nodes_Conditions(lambda x, y, z: x == 0)
    n1 = mesh.Nodes_Conditions(lambda x, y, z: x == 1)
    simu.add_dirichlet(n0, [0.0], ["t"])
    simu.add_lineLoad(n1, [1.5], ["t"])

    N = mesh.Nn
    known = np.unique(simu.Bc_dofs_Dirichlet())
    free = np.setdiff1d(np.arange(N), known)
    # previous state (u0, v0): two backward-Euler steps from rest (public API only)
    simu.Solver_Set_Parabolic_Algorithm(dt, 1.0)
    simu.Solve()
    simu.Solve()
    u0, v0 = simu.thermal, simu.thermalDot
    assert np.abs(v0).max() > 0
    # the step under test
    simu.Solver_Set_Parabolic_Algorithm(dt, alpha)

    K, C, _, _ = simu.Get_K_C_M_F()
    K, C = K.toarray(), C.toarray()
    F = simu.Bc_vector_Neumann()

    # ---- independent reference: the documented relations solved for (u1, v1) with numpy
    # unknown v1 on the free dofs; u1 = u0 + dt((1-alpha) v0 + alpha v1); u1 = 0 on the known dofs
    u_pred = u0 + dt * (1 - alpha) * v0
    A = C + alpha * dt * K
    v1 = np.zeros(N)
    v1[known] = (0.0 - u_pred[known]) / (alpha * dt) if alpha > 0 else 0.0
    rhs = F - K @ u_pred
    v1[free] = np.linalg.solve(A[np.ix_(free, free)], rhs[free] - A[np.ix_(free, known)] @ v1[known])
    u1 = u_pred + alpha * dt * v1

    try:
        simu.Solve()
    except Exception as err:  # noqa
        return f"{type(err).__name__}: {err}", None
    u, v = simu.thermal, simu.thermalDot
    res = (K @ u + C @ v - F)[free]
    err = max(np.abs(u - u1).max() / np.abs(u1).max(), np.abs(v - v1).max() / np.abs(v1).max())
    return None, (err, np.abs(res).max() / np.abs(F).max())


bad = False
for alpha in [1.0, 0.5, 0.25, 0.0]:
    exc, vals = one_step(alpha)
    if exc is not None:
        print(f"alpha = {alpha}: Solve() raised {exc}")
        bad = True
    else:
        err, res = vals
        print(f"alpha = {alpha}: |lib - reference| = {err:.2e} (relative), residual on free dofs = {res:.2e}")
        if err > 1e-8 or res > 1e-8:
            bad = True

if bad:
    print("DEFECT: the documented Forward-Euler member (alpha = 0) of the parabolic theta-scheme cannot be obtained.")
    sys.exit(1)
print("no defect")
sys.exit(0)
