"""C05 / defect 1 (UNCHANGED library): the theta-scheme refuses its documented forward-Euler end point.

`_Simu.Solver_Set_Parabolic_Algorithm(dt, alpha)` documents

    alpha : float, optional
        The alpha criterion, by default 1/2
        - 0 -> Forward Euler
        - 1 -> Backward Euler
        - 1/2 -> midpoint

and accepts alpha = 0 without complaint (only dt is checked).  The next Solve() then stops on

    ZeroDivisionError: float division by zero

because the history term, the weight of C in the system matrix and the corrector are all written
with 1/(alpha*dt) (_Solver_Apply_Neumann: `b += 1/(alpha*dt) * C @ ut_np1`,
_Solver_Get_K_C_M_coefs_for_time_scheme: `coefC = 1/(alpha*dt)`,
_Solver_Update_solutions: `v_np1 = (u_np1 - vt_np1)/(alpha*dt)`), i.e. the unknown is always
u^{n+1} = u~ + alpha dt v^{n+1}, which degenerates at alpha = 0 (there the unknown has to be
v^{n+1}: C v^{n+1} = F - K u^{n+1}, u^{n+1} = u^n + dt v^n, like AlgoType.euler_explicit does for
the hyperbolic family).  So one of the "accepted" parameters of the parabolic scheme gives no
step at all, let alone one that satisfies K u^{n+1} + C v^{n+1} = F^{n+1}.
A tiny alpha (1e-12) "works" and shows what the documented limit should be.

exit 1: the defect is present;  exit 0: a forward-Euler step is returned and satisfies the scheme.
"""

import sys
import numpy as np

from EasyFEA import ElemType, Models, Simulations
from EasyFEA.Geoms import Domain


def main() -> int:
    mesh = Domain((0, 0), (1.0, 1.0), 0.25).Mesh_2D([], ElemType.TRI3, isOrganised=True)
    simu = Simulations.Thermal(mesh, Models.Thermal(k=1.0, c=1.0))
    simu.rho = 1.0
    pt = simu.problemType
    dt = 1e-3

    rng = np.random.default_rng(0)
    n0 = mesh.Nodes_Conditions(lambda x, y, z: x == 0)
    un, vn = rng.standard_normal((2, mesh.Nn))
    un[n0] = 1.0
    vn[n0] = 0.0
    simu._Set_solutions(pt, un.copy(), vn.copy())

    simu.Solver_Set_Parabolic_Algorithm(dt, alpha=0)  # documented: "0 -> Forward Euler"
    simu.add_dirichlet(n0, [1.0], ["t"])
    try:
        simu.Solve()
    except ZeroDivisionError as err:
        print(f"DEFECT: Solver_Set_Parabolic_Algorithm(dt, alpha=0) ('0 -> Forward Euler') then Solve(): ZeroDivisionError: {err}")
        return 1

    # if it ever runs: u^{n+1} = u^n + dt v^n on the free dofs and K u^{n+1} + C v^{n+1} = F there
    u, v = simu._Get_u_n(pt), simu._Get_v_n(pt)
    K, C, _, _ = simu.Get_K_C_M_F()
    _, free = simu.Bc_dofs_known_unknown(pt)
    e1 = np.abs(u - (un + dt * vn))[free].max() / np.abs(u).max()
    r = (K @ u + C @ v)[free]
    e2 = np.abs(r).max() / max(np.abs(K @ u).max(), np.abs(C @ v).max())
    if e1 > 1e-8 or e2 > 1e-8:
        print(f"DEFECT: alpha = 0 runs but is not forward Euler: |u - (u_n + dt v_n)| rel. {e1:.2e}, residual rel. {e2:.2e}")
        return 1
    print("OK: alpha = 0 gives a forward-Euler step")
    return 0


if __name__ == "__main__":
    sys.exit(main())
