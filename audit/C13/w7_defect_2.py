"""Defect of the UNCHANGED library (C13, minor - an exception, not a wrong value): the plain product of a
SCALAR trial and test field cannot be integrated by a BiLinearForm although the same product is accepted
by a LinearForm.

The value of a scalar Field is a one-component vector, (1, nPg, 1) (Field.__call__), so `u * v`,
`k * u * v` or the transport term `u.grad.dot(b) * v` are (Ne, nPg, 1) arrays.
LinearForm.Integrate_e flattens the integrated values (np.reshape(values_e, Ne)) and accepts `f * v`;
BiLinearForm.Integrate_e does not (data[:, i, j] = values_e) and raises
    ValueError: could not broadcast input array from shape (Ne,1) into shape (Ne,)
so the reaction / mass form of a scalar problem has to be written u.dot(v), and a scalar transport
term has no natural spelling at all.

exit 1 when the defect is present, 0 otherwise.
"""

import sys
import numpy as np

from EasyFEA import ElemType
from EasyFEA.FEM import Field, BiLinearForm, LinearForm
from EasyFEA.FEM.Operators import Bilinear, Linear
from EasyFEA.Geoms import Domain

mesh = Domain((0, 0), (1, 1), 0.3).Mesh_2D([], ElemType.TRI3)
groupElem = mesh.groupElem
field = Field(groupElem, 1)

# the linear counterpart is accepted and right
F_e = LinearForm(lambda v: 2.0 * v).Integrate_e(field)
assert np.abs(F_e - Linear.V(groupElem, 2.0)).max() < 1e-12

defect = False
for name, form, ref in [
    ("u * v", lambda u, v: u * v, Bilinear.UV(groupElem)),
    ("2 * u * v", lambda u, v: 2.0 * u * v, Bilinear.UV(groupElem, 2.0)),
]:
    try:
        M_e = BiLinearForm(form).Integrate_e(field)
        err = np.abs(M_e - ref).max()
        print(f"{name}: integrated, max error vs Bilinear.UV = {err:.2e}")
        defect |= err > 1e-12
    except Exception as e:
        print(f"{name}: {type(e).__name__}: {e}")
        defect = True

if defect:
    print("\nDEFECT: the product of a scalar trial and test field is not integrable by a BiLinearForm.")
    sys.exit(1)
print("\nno defect")
sys.exit(0)
