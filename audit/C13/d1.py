"""C13 / finding 1 -- a BiLinearForm is stored with the TRIAL function on the rows.

BiLinearForm.Integrate_e fills  data[e, i, j] = a(N_i as u, N_j as v)  (i: trial dof, j: test dof) and both
BiLinearForm.Assemble and Simulations.WeakForms scatter the first index to the matrix ROWS.  The system that is
solved afterwards, K x = F with F_j = l(N_j) (LinearForm, test function), needs K[test, trial].  For a symmetric
form nothing shows; for any non symmetric form (convection, ...) the transposed (adjoint) problem is solved.

Check: steady convection-diffusion  -eps u'' + b u' = 0 on (0,1), u(0)=0, u(1)=1, weak form
       a(u,v) = int eps grad(u).grad(v) + (b.grad(u)) v ,  exact solution (exp(b x/eps)-1)/(exp(b/eps)-1).
"""
import sys
import numpy as np
from scipy.sparse import coo_matrix
from scipy.sparse.linalg import spsolve

from EasyFEA import ElemType, Models, Simulations
from EasyFEA.FEM import Field, BiLinearForm, MatrixType
from EasyFEA.Geoms import Domain

eps, bx = 1.0, 5.0
b = np.array([bx, 0.0])

mesh = Domain((0, 0), (1, 0.2), 0.02).Mesh_2D([], ElemType.QUAD4, isOrganised=True)
groupElem = mesh.groupElem
mt = MatrixType.mass
field = Field(groupElem, 1, mt)


@BiLinearForm
def a(u: Field, v: Field):
    #      eps grad(u).grad(v)       +   (b . grad(u)) v
    return eps * u.grad.dot(v.grad) + (v * u.grad).dot(b)


simu = Simulations.WeakForms(mesh, Models.WeakForms(field, a))
nodes0 = mesh.Nodes_Conditions(lambda x, y, z: x == 0)
nodes1 = mesh.Nodes_Conditions(lambda x, y, z: x == 1)
simu.add_dirichlet(nodes0, [0], ["u"])
simu.add_dirichlet(nodes1, [1], ["u"])
simu.Solve()
u_lib = np.asarray(simu.u).copy()

x = mesh.coord[:, 0]
u_exact = (np.exp(bx * x / eps) - 1) / (np.exp(bx / eps) - 1)
u_adjoint = (np.exp(-bx * x / eps) - 1) / (np.exp(-bx / eps) - 1)  # solution for b -> -b

# ---------------------------------------------------------------------------------------------------
# independent reference: K_ref[test, trial] with the same quadrature, plain numpy, then a plain solve
# ---------------------------------------------------------------------------------------------------
N = np.asarray(groupElem.Get_N_pg(mt))[:, 0, :]  # (nPg, nPe)
dN = np.asarray(groupElem.Get_dN_e_pg(mt))  # (Ne, nPg, dim, nPe)
w = np.asarray(groupElem.Get_weightedJacobian_e_pg(mt))  # (Ne, nPg)
# K_e[e, test a, trial c] = sum_p w ( eps dN_a . dN_c + N_a (b . dN_c) )
Kref_e = eps * np.einsum("ep,epia,epic->eac", w, dN, dN) + np.einsum(
    "ep,pa,i,epic->eac", w, N, b, dN
)
connect = groupElem.connect
rows = np.repeat(connect[:, :, None], groupElem.nPe, axis=2).ravel()
cols = np.repeat(connect[:, None, :], groupElem.nPe, axis=1).ravel()
Nn = mesh.Nn
Kref = coo_matrix((Kref_e.ravel(), (rows, cols)), shape=(Nn, Nn)).tocsr()


def solve(K):
    known = np.concatenate([nodes0, nodes1])
    vals = np.concatenate([np.zeros(nodes0.size), np.ones(nodes1.size)])
    free = np.setdiff1d(np.arange(Nn), known)
    sol = np.zeros(Nn)
    sol[known] = vals
    rhs = -K[free][:, known] @ vals
    sol[free] = spsolve(K[free][:, free].tocsc(), rhs)
    return sol


u_ref = solve(Kref)
u_refT = solve(Kref.T.tocsr())

K_lib = simu.Get_K_C_M_F()[0]
K_asm = a.Assemble(field)
Ke_lib = a.Integrate_e(field)

scale = abs(Kref).max()
print("element arrays : |Ke_lib - Kref_e[test,trial]| =", abs(Ke_lib - Kref_e).max())
print("                 |Ke_lib - Kref_e^T          | =", abs(Ke_lib - Kref_e.transpose(0, 2, 1)).max())
print("global K (simu): |K - Kref| =", abs(K_lib - Kref).max(), "  |K - Kref^T| =", abs(K_lib - Kref.T).max())
print("form.Assemble  : |K - Kref| =", abs(K_asm - Kref).max(), "  |K - Kref^T| =", abs(K_asm - Kref.T).max())
print()
print("solution of Simulations.WeakForms versus")
print("   exact solution of the stated problem      :", abs(u_lib - u_exact).max())
print("   numpy Galerkin reference (K[test,trial])  :", abs(u_lib - u_ref).max())
print("   numpy solve with the TRANSPOSED matrix    :", abs(u_lib - u_refT).max())
print("   exact solution of the adjoint pb (b -> -b):", abs(u_lib - u_adjoint).max())
print("   (numpy reference vs exact: %.2e)" % abs(u_ref - u_exact).max())

defect = abs(u_lib - u_ref).max() > 1e-6 or abs(K_asm - Kref).max() > 1e-9 * scale
if defect:
    print("\nDEFECT: the weak-form simulation solves the transposed system (trial functions on the rows).")
    sys.exit(1)
print("\nok")
sys.exit(0)
