"""C13 / finding 3 -- Simulations.WeakForms drops the thickness of a 2D mesh that does not lie in the plane z = 0.

Simulations/_weakforms.py, Construct_local_matrix_system:
    thickness = 1.0 if self.mesh.inDim == 3 else weakForms.thickness
keys on the EMBEDDING dimension (inDim) instead of the mesh dimension.  Every other simulation (Thermal, Elastic)
and the load routines of _Simu (add_surfLoad / add_volumeLoad) key on mesh.dim == 2.  A 2D mesh placed at z = 1
(or rotated out of the xy plane: "A 2D mesh can be oriented in a 3D space", Mesh.inDim) has dim = 2, inDim = 3:
the weak-form K, C, M, F silently lose the thickness while the loads keep it.

Check: heat conduction on a unit square, T = 0 on x = 0, line flux q on x = 1, thickness t = 0.1:
       T(x) = q x / (k t)  ->  max T = 15.   Same model through Simulations.Thermal and through the weak form.
"""
import sys
import numpy as np

from EasyFEA import ElemType, Models, Simulations
from EasyFEA.FEM import Field, BiLinearForm, MatrixType, Operators
from EasyFEA.Geoms import Domain

k, t, q = 2.0, 0.1, 3.0
worst = 0.0

for z in [0.0, 1.0]:
    mesh = Domain((0, 0, z), (1, 1, z), 0.25).Mesh_2D([], ElemType.TRI3)
    nodes0 = mesh.Nodes_Conditions(lambda x, y, z: x == 0)
    nodes1 = mesh.Nodes_Conditions(lambda x, y, z: x == 1)

    # dedicated simulation
    thermal = Simulations.Thermal(mesh, Models.Thermal(k=k, thickness=t))
    thermal.add_dirichlet(nodes0, [0], ["t"])
    thermal.add_lineLoad(nodes1, [q], ["t"])
    thermal.Solve()

    # weak form, same quadrature as the built-in operator
    field = Field(mesh.groupElem, 1, MatrixType.rigi)
    form = BiLinearForm(lambda u, v: k * u.grad.dot(v.grad))
    simu = Simulations.WeakForms(mesh, Models.WeakForms(field, form, thickness=t))
    simu.add_dirichlet(nodes0, [0], ["u"])
    simu.add_lineLoad(nodes1, [q], ["u"])
    simu.Solve()

    exact = q * mesh.coord[:, 0] / (k * t)
    K_thermal = thermal.Get_K_C_M_F()[0]
    K_weak = simu.Get_K_C_M_F()[0]
    # the element arrays themselves agree: only the thickness factor differs
    Ke_form = form.Integrate_e(field)
    Ke_builtin = Operators.Bilinear.GradUGradV(mesh.groupElem, k, MatrixType.rigi)

    err_sol = abs(simu.u - thermal.thermal).max()
    print(f"plane z = {z}: mesh.dim = {mesh.dim}, mesh.inDim = {mesh.inDim}")
    print("   form.Integrate_e vs GradUGradV         :", abs(Ke_form - Ke_builtin).max())
    print("   |K_weak - K_thermal| / |K_thermal|     :", abs(K_weak - K_thermal).max() / abs(K_thermal).max())
    print("   |K_weak * t - K_thermal| / |K_thermal| :", abs(K_weak * t - K_thermal).max() / abs(K_thermal).max())
    print("   max T  thermal =", thermal.thermal.max(), "  weak form =", simu.u.max(), "  exact =", exact.max())
    print("   |u_weak - T_thermal| =", err_sol, "  |T_thermal - exact| =", abs(thermal.thermal - exact).max())
    worst = max(worst, err_sol)

if worst > 1e-8:
    print("\nDEFECT: on the 2D mesh at z = 1 the weak-form simulation ignores the thickness (solution off by 1/t).")
    sys.exit(1)
print("\nok")
sys.exit(0)
