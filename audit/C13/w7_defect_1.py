"""Defect of the UNCHANGED library (C13): in a form, the gradient of a VECTOR field is the transpose of
the gradient the same `Field.grad` returns when the field is evaluated.

`Field.grad` (EasyFEA/FEM/_field.py)
  * evaluation mode (Field.Evaluate_e): groupElem.Get_Gradient_e_pg(...)[..., :dof_n, :dof_n], documented as
        [[ux,x  ux,y], [uy,x  uy,y]]            i.e. grad[d, i] = d u_d / d x_i
  * form mode (BiLinearForm / LinearForm):  newArray[..., :, dof] = dN_e_pg[..., node]
                                                i.e. grad[i, d] = d u_d / d x_i   (transposed)

Every form that uses the gradient symmetrically (Sym_Grad, Trace, grad:grad) hides it; a form that
does not - a convective / transport term `(grad(u) @ b) . c`, `grad(u) @ b` with b a velocity - is
integrated with b and c exchanged: the assembled vector F (LinearForm) or matrix no longer represents
the functional that the very same expression evaluates to on a discrete field:

        F . U   !=   int  (grad(u_h) @ b) . c  dOmega        for u_h = sum U_i N_i

exit 1 when the defect is present, 0 otherwise.
"""

import sys
import numpy as np

from EasyFEA import ElemType
from EasyFEA.FEM import Field, LinearForm, MatrixType
from EasyFEA.Geoms import Domain

mesh = Domain((0, 0), (1, 1), 0.3).Mesh_2D([], ElemType.TRI6)
groupElem = mesh.groupElem
field = Field(groupElem, 2, MatrixType.mass)

b = np.array([1.0, 2.0])
c = np.array([3.0, -1.0])


def expression(f: Field):
    return (f.grad @ b).dot(c)


# assembled linear functional
F = LinearForm(expression).Assemble(field).toarray().ravel()

# a discrete field
rng = np.random.default_rng(0)
U = rng.random(mesh.Nn * 2)

# the same expression evaluated on u_h and integrated
wJ_e_pg = np.asarray(groupElem.Get_weightedJacobian_e_pg(MatrixType.mass))
values_e_pg = np.asarray(field.Evaluate_e(expression, U, returnMeanValues=False))
evaluated = float((values_e_pg * wJ_e_pg).sum())

# reference from the shape function derivatives: (grad(u) b)_d = sum_i u_d,i b_i
dN_e_pg = np.asarray(groupElem.Get_dN_e_pg(MatrixType.mass))  # (Ne, nPg, dim, nPe)
U_e = U.reshape(-1, 2)[groupElem.connect]  # (Ne, nPe, 2)
gradU = np.einsum("epin,end->epdi", dN_e_pg, U_e)  # [d, i] = u_d,i
reference = float((np.einsum("epdi,i,d->ep", gradU, b, c) * wJ_e_pg).sum())
swapped = float((np.einsum("epdi,i,d->ep", gradU, c, b) * wJ_e_pg).sum())

assembled = float(F @ U)

print(f"int (grad(u_h) b).c  from dN          : {reference:.12f}")
print(f"same expression through Evaluate_e    : {evaluated:.12f}")
print(f"F . U with F = LinearForm(...).Assemble: {assembled:.12f}")
print(f"(b and c exchanged                    : {swapped:.12f})")

tol = 1e-9 * max(abs(reference), 1.0)
assert abs(evaluated - reference) < tol, "the evaluated expression should be the reference"

if abs(assembled - reference) > tol:
    print(
        "\nDEFECT: the form integrates (grad(v)^T b).c - in a form, Field.grad of a vector field is the "
        "transpose of the gradient it evaluates to."
    )
    sys.exit(1)

print("\nno defect")
sys.exit(0)
