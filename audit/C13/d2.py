"""C13 / finding 2 -- during assembly, Field.grad of a vector field is the TRANSPOSE of the gradient.

docs/howto/new_simulation.md: "`u.grad` | Gradient grad(u) -- shape (Ne, pg, dof_n, dim)", i.e. grad[i, j] = d u_i / d x_j,
and this is what the very same property returns inside Field.Evaluate_e (groupElem.Get_Gradient_e_pg).
While a form is being integrated (Field.grad, `newArray[..., :, dof] = array`) it is laid out (dim, dof_n):
grad[i, j] = d u_j / d x_i.  Sym_Grad, grad:grad and Trace do not see it; every form that contracts grad(u)
with something else does:  (grad(u) b).v ,  (A grad(u)):grad(v) , u.grad.T ...

Check with the convective form  a(u, v) = int (grad(u) b) . v   on the unit square:
   u = G x  (so grad(u) = G exactly, P1 field), v = c constant   ->   a(u, v) = |Omega| (G b).c
"""
import sys
import numpy as np

from EasyFEA import ElemType
from EasyFEA.FEM import Field, BiLinearForm, MatrixType
from EasyFEA.Geoms import Domain

mesh = Domain((0, 0), (1, 1), 0.25).Mesh_2D([], ElemType.TRI3)
groupElem = mesh.groupElem
mt = MatrixType.mass
field = Field(groupElem, 2, mt)

b = np.array([1.0, 0.0])
G = np.array([[1.0, 2.0], [3.0, 4.0]])  # grad(u)_ij = du_i/dx_j
c = np.array([0.3, -0.7])

U = (mesh.coord[:, :2] @ G.T).ravel()  # nodal values of u = G x   [ux1, uy1, ux2, ...]
V = np.tile(c, mesh.Nn)  # nodal values of v = c


def convection(u: Field, v: Field):
    return (u.grad @ b).dot(v)  # (grad(u) b) . v


form = BiLinearForm(convection)
K = form.Assemble(field)

# the bilinear form evaluated on (u, v); both index conventions of the matrix are printed so that the
# verdict does not depend on which of the two indices carries the trial function
val_uKv = float(U @ (K @ V))
val_vKu = float(V @ (K @ U))
ref = float((G @ b) @ c)  # |Omega| = 1
ref_T = float((G.T @ b) @ c)

print("a(u,v) closed form,  (grad(u)   b).c =", ref)
print("                     (grad(u)^T b).c =", ref_T)
print("library  U^T K V =", val_uKv, "   V^T K U =", val_vKu)

# independent element matrices with the same quadrature, K_e[trial (node c, comp j), test (node a, comp i)]
N = np.asarray(groupElem.Get_N_pg(mt))[:, 0, :]  # (nPg, nPe)
dN = np.asarray(groupElem.Get_dN_e_pg(mt))  # (Ne, nPg, dim, nPe)
w = np.asarray(groupElem.Get_weightedJacobian_e_pg(mt))
nPe = groupElem.nPe
# trial N_c e_j : (grad(u) b)_i = delta_ij (b . dN_c) ; test N_a e_i
blk = np.einsum("ep,k,epkc,pa->eca", w, b, dN, N)  # (Ne, c, a)
Kref_e = np.zeros((groupElem.Ne, 2 * nPe, 2 * nPe))
for j in range(2):
    Kref_e[:, j::2, j::2] = blk
Ke = form.Integrate_e(field)
asm = groupElem.Get_assembly_e(2)  # (Ne, nPe*2) global dofs of each element
val_ref = sum(U[asm[e]] @ Kref_e[e] @ V[asm[e]] for e in range(groupElem.Ne))
print("numpy element matrices: sum_e U_e^T Kref_e V_e =", float(val_ref), "(reproduces the closed form)")
print("element arrays: |Ke - Kref_e| =", abs(Ke - Kref_e).max(), "  |Ke - Kref_e^T| =", abs(Ke - Kref_e.transpose(0, 2, 1)).max())

# the library contradicts itself: the same expression through the same Field, in evaluation mode
ev = np.asarray(field.Evaluate_e(lambda u: u.grad @ b, U))[0]
gr = np.asarray(field.Evaluate_e(lambda u: u.grad, U))[0]
print("Field.Evaluate_e(u.grad @ b) =", ev, "  (G b =", G @ b, ")")
print("Field.Evaluate_e(u.grad)     =", gr.tolist(), " = G")
seen = []


def recording(u: Field, v: Field):
    seen.append(np.asarray(u.grad)[0, 0].copy())
    return u.dot(v)


BiLinearForm(recording).Integrate_e(field)
# first call: trial function N_0 e_x, so only the first ROW (d ux / dx, d ux / dy) may be non zero
print("u.grad seen by a form for the trial function N_0 e_x:", seen[0].tolist(), "(first COLUMN filled)")

tol = 1e-9
ok = abs(val_uKv - ref) < tol or abs(val_vKu - ref) < tol
if not ok:
    print("\nDEFECT: neither orientation of the assembled matrix represents int (grad(u) b).v ;")
    print("        U^T K V equals the form built on the transposed gradient:", abs(val_uKv - ref_T) < tol)
    sys.exit(1)
print("\nok")
sys.exit(0)
