"""C11 / d3: parameter fields are kept by reference; the law silently goes stale, then jumps.

`_Parameter.__set__` (EasyFEA/Utilities/_params.py) stores the caller's array itself
(`instance.__dict__[name] = value`, no copy) while `__get__` returns a copy.  When the caller
later updates its own field in place (the natural thing to do with a per-element field of
moduli: damage, homogenisation loop, temperature dependence ...):

  * `material.E` (public read) shows the new values,
  * `material.C` / `material.S` still are the law of the old values (no Need_Update),
  * the next *unrelated* assignment (thickness, planeStress, another parameter) makes the law
    jump to the new values.

So on one live object the law is neither the law of the parameters it reports, nor a function
of the assignments made through the API: it depends on history.
"""

import sys
import numpy as np
from EasyFEA import Models


def rel(a, b):
    return np.abs(a - b).max() / np.abs(b).max()


def law_of(mat):
    """Independent reference: the law of the parameters the material reports, element by element."""
    if isinstance(mat, Models.Elastic.Isotropic):
        E, v = mat.E, mat.v
        out = []
        for Ee in E:
            lmbda = Ee * v / (1 - v**2)  # plane stress
            mu = Ee / (2 * (1 + v))
            out.append([[lmbda + 2 * mu, lmbda, 0], [lmbda, lmbda + 2 * mu, 0], [0, 0, 2 * mu]])
        return np.array(out)
    else:
        El, Et, Gl, vl, vt = mat.El, mat.Et, mat.Gl, mat.vl, mat.vt
        out = []
        for Ele in El:
            S = np.array([[1 / Ele, -vl / Ele, 0], [-vl / Ele, 1 / Et, 0], [0, 0, 1 / (2 * Gl)]])
            out.append(np.linalg.inv(S))  # plane stress, axes = x, y
        return np.array(out)


defect = False
for name in ("Isotropic", "TransverselyIsotropic"):
    field = np.array([10e3, 20e3, 30e3, 40e3])  # caller-owned per-element field
    if name == "Isotropic":
        mat = Models.Elastic.Isotropic(2, E=field, v=0.3, planeStress=True)
        read = lambda: mat.E
    else:
        mat = Models.Elastic.TransverselyIsotropic(2, El=field, Et=5e3, Gl=3e3, vl=0.3, vt=0.4, planeStress=True)
        read = lambda: mat.El

    e0 = rel(mat.C, law_of(mat))
    field[0] *= 0.01  # e.g. element 0 is damaged: the caller updates its field in place
    reported = read()[0]
    C_stale = mat.C
    e1 = rel(C_stale, law_of(mat))
    e1s = np.abs(C_stale @ mat.S - np.eye(3)).max()
    mat.thickness = 1.0  # unrelated assignment (same value as before!)
    C_after = mat.C
    e2 = rel(C_after, law_of(mat))
    jump = rel(C_after[0], C_stale[0])

    print(f"{name}:")
    print(f"  initially                              |C - law(reported parameters)| = {e0:.2e}")
    print(f"  after field[0] *= 0.01 (mat reports {reported:g})  |C - law(reported parameters)| = {e1:.2e}   (|C.S-I| = {e1s:.1e})")
    print(f"  after mat.thickness = 1.0 (unchanged)  |C - law(reported parameters)| = {e2:.2e}   C[0] jumped by {jump:.2e}")
    if e1 > 1e-9 or jump > 1e-9:
        defect = True

print("DEFECT" if defect else "ok")
sys.exit(1 if defect else 0)
