"""C11 / d2: integer-typed parameter fields overflow silently (Orthotropic, TransverselyIsotropic).

A per-element field of moduli is easily integer-typed, e.g.
    E1 = np.where(inFibre, 230_000_000_000, 70_000_000_000)      # Pa -> int64
The parameter descriptors accept any array with values >= 0 and store it as is.
The stiffness of Orthotropic (properties _c11 ... _c12, __get_cij_denominator) and
TransverselyIsotropic (property kt) is written with products of moduli
(E1**2, -E1*E2, 2*E2*E3, El*Et ...) that are evaluated in int64 and wrap around as
soon as a modulus exceeds ~3.04e9 (sqrt(2**63)): any metal, ceramic or composite in SI units.
The compliance is written with 1/E (float), so S is right and C is garbage: C is not
SPD, C.S != I and C differs from the law of the same material given with float arrays.
The self-check `C = S^-1` of the laws only runs for homogeneous parameters, and a Python
int scalar does not overflow, so nothing is reported.
"""

import sys
import numpy as np
from EasyFEA import Models

Ne = 4
# carbon/epoxy ply, SI units (Pa), integer typed per-element fields
E1 = np.full(Ne, 230_000_000_000)
E2 = np.full(Ne, 15_000_000_000)
E3 = np.full(Ne, 15_000_000_000)
G23 = np.full(Ne, 5_000_000_000)
G13 = np.full(Ne, 6_000_000_000)
G12 = np.full(Ne, 6_000_000_000)
v23, v13, v12 = 0.3, 0.2, 0.2
assert E1.dtype.kind == "i"


def reference_C(E1, E2, E3, G23, G13, G12, v23, v13, v12):
    """Independent reference: inverse of the textbook Kelvin-Mandel compliance (floats)."""
    S = np.zeros((6, 6))
    S[0, 0], S[1, 1], S[2, 2] = 1 / E1, 1 / E2, 1 / E3
    S[0, 1] = S[1, 0] = -v12 / E1
    S[0, 2] = S[2, 0] = -v13 / E1
    S[1, 2] = S[2, 1] = -v23 / E2
    S[3, 3], S[4, 4], S[5, 5] = 1 / (2 * G23), 1 / (2 * G13), 1 / (2 * G12)
    return np.linalg.inv(S)


def report(name, mat, C_ref):
    C, S = mat.C, mat.S
    errRef = np.abs(C - C_ref).max() / np.abs(C_ref).max()
    errInv = np.abs(C @ S - np.eye(C.shape[-1])).max()
    eigMin = np.linalg.eigvalsh((C + np.swapaxes(C, -1, -2)) / 2).min()
    print(f"{name:48s} |C-Cref|/|Cref| = {errRef:9.2e}   |C.S-I| = {errInv:9.2e}   min eig(C) = {eigMin: .3e}")
    return errRef > 1e-9 or errInv > 1e-9 or eigMin <= 0


defect = False
for dim, label in ((3, "3D"), (2, "2D plane strain")):
    idx = np.arange(6) if dim == 3 else np.array([0, 1, 5])

    C_ref = reference_C(230e9, 15e9, 15e9, 5e9, 6e9, 6e9, v23, v13, v12)[np.ix_(idx, idx)]
    asFloat = [a.astype(float) for a in (E1, E2, E3, G23, G13, G12)]
    m_float = Models.Elastic.Orthotropic(dim, *asFloat, v23, v13, v12, planeStress=False)
    m_int = Models.Elastic.Orthotropic(dim, E1, E2, E3, G23, G13, G12, v23, v13, v12, planeStress=False)
    ok = report(f"Orthotropic {label}, float64 fields", m_float, C_ref)
    assert not ok, "float fields are expected to be right"
    defect |= report(f"Orthotropic {label}, int64 fields (same values)", m_int, C_ref)

    El, Et, Gl, vl, vt = E1, E2, G12, 0.2, 0.3
    C_ref = reference_C(230e9, 15e9, 15e9, 15e9 / (2 * (1 + vt)), 6e9, 6e9, vt, vl, vl)[np.ix_(idx, idx)]
    m_float = Models.Elastic.TransverselyIsotropic(
        dim, El.astype(float), Et.astype(float), Gl.astype(float), vl, vt, planeStress=False
    )
    m_int = Models.Elastic.TransverselyIsotropic(dim, El, Et, Gl, vl, vt, planeStress=False)
    ok = report(f"TransverselyIsotropic {label}, float64 fields", m_float, C_ref)
    assert not ok, "float fields are expected to be right"
    defect |= report(f"TransverselyIsotropic {label}, int64 fields (same values)", m_int, C_ref)

# the same integers in MPa (no overflow) and Python int scalars in Pa are right
m = Models.Elastic.Orthotropic(3, E1 // 10**6, E2 // 10**6, E3 // 10**6, G23 // 10**6, G13 // 10**6, G12 // 10**6, v23, v13, v12)
report("Orthotropic 3D, int64 fields in MPa", m, reference_C(230e3, 15e3, 15e3, 5e3, 6e3, 6e3, v23, v13, v12))
m = Models.Elastic.Orthotropic(3, 230_000_000_000, 15_000_000_000, 15_000_000_000, 5_000_000_000, 6_000_000_000, 6_000_000_000, v23, v13, v12)
report("Orthotropic 3D, Python int scalars in Pa", m, reference_C(230e9, 15e9, 15e9, 5e9, 6e9, 6e9, v23, v13, v12))

print("DEFECT" if defect else "ok")
sys.exit(1 if defect else 0)
