"""Defect of the UNCHANGED library (C11: 'for all admissible moduli and Poisson ratios ... the
stiffness is SPD and the compliance is its inverse').

Orthotropic._Behavior and TransverselyIsotropic._Behavior check their closed-form stiffness
against np.linalg.inv of the tabulated compliance with a fixed relative tolerance of 1e-12:

    diff_S = norm(material_sM - inv(material_cM)) / norm(material_sM);  assert max(diff_S) < 1e-12

The accuracy of a numerical inverse is cond(C) * eps, and cond(C) ~ 1 / (1 - 2 v) for a nearly
incompressible material. So an admissible material (the descriptors accept -1 < v < 0.5, and the
law is SPD) with v = 0.49999 (Orthotropic) or v = 0.499999 (TransverselyIsotropic) - usual values
for quasi-incompressible rubber / soft tissue - cannot be built: reading .C or .S stops on a bare
AssertionError without message. The very same material is accepted
  * as an Isotropic law (no self-check),
  * as an Orthotropic law whose E1 is a one-value-per-element field (the self-check is skipped
    for fields), and the law obtained there is fine: C is SPD and C.S = I to 1e-11.
The check should scale its tolerance with the conditioning (or compare C.S with I).

Exit 1 when the defect is present.
"""

import sys
import numpy as np

from EasyFEA.Models.Elastic import Isotropic, Orthotropic, TransverselyIsotropic

bad = []

for v in [0.49999, 0.499999]:
    E = 1.0
    G = E / (2 * (1 + v))

    # reference: what the law must be (isotropic constants)
    iso = Isotropic(3, E=E, v=v)
    Cref = iso.C
    assert np.linalg.eigvalsh(Cref).min() > 0  # admissible: SPD

    # the same material as a per-element field: accepted, and right
    fld = Orthotropic(3, E * np.ones(2), E, E, G, G, G, v, v, v)
    Cf, Sf = fld.C, fld.S
    assert np.abs(Cf @ Sf - np.eye(6)).max() < 1e-8
    assert np.linalg.norm(Cf[0] - Cref) / np.linalg.norm(Cref) < 1e-8

    for name, build in [
        ("Orthotropic 3D", lambda: Orthotropic(3, E, E, E, G, G, G, v, v, v)),
        ("Orthotropic 2D plane strain",
         lambda: Orthotropic(2, E, E, E, G, G, G, v, v, v, planeStress=False)),
        ("TransverselyIsotropic 3D", lambda: TransverselyIsotropic(3, E, E, G, v, v)),
    ]:  # fmt: skip
        try:
            mat = build()
            C, S = mat.C, mat.S
            n = C.shape[-1]
            err = np.abs(C @ S - np.eye(n)).max()
            if not err < 1e-7:
                bad.append(f"{name}, v = {v}: C.S - I = {err:.2e}")
        except AssertionError as e:
            bad.append(f"{name}, v = {v}: admissible material refused by a bare AssertionError({e})")

if bad:
    print("DEFECT: admissible nearly incompressible laws cannot be built")
    for b in bad:
        print("  ", b)
    sys.exit(1)

print("ok")
sys.exit(0)
