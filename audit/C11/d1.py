"""C11 / d1: material axes that are perpendicular but not of unit length are refused.

The three oriented laws (TransverselyIsotropic, Orthotropic, Anisotropic) accept
"material axes of any length" (they normalise them), but their constructors test
perpendicularity on the *raw* vectors with an absolute, one-sided threshold:

    assert axis_1 @ axis_2 <= 1e-12, "axis1 and axis2 must be perpendicular"

For a perpendicular pair of length L the dot product is pure round-off of size
~ L^2 * 1e-16, i.e. above 1e-12 as soon as L >~ 100 (half of the time: the test is
one-sided).  The exported helper Get_Pmat (which normalises first) accepts the very
same pair and returns an orthogonal matrix, so the promised law exists - the
constructor just refuses to build it.
"""

import sys
import numpy as np
from EasyFEA import Models
from EasyFEA.Models import Get_Pmat, Apply_Pmat


def rotation(az, ay, ax):
    az, ay, ax = np.deg2rad([az, ay, ax])
    Rz = np.array([[np.cos(az), -np.sin(az), 0], [np.sin(az), np.cos(az), 0], [0, 0, 1]])
    Ry = np.array([[np.cos(ay), 0, np.sin(ay)], [0, 1, 0], [-np.sin(ay), 0, np.cos(ay)]])
    Rx = np.array([[1, 0, 0], [0, np.cos(ax), -np.sin(ax)], [0, np.sin(ax), np.cos(ax)]])
    return Rz @ Ry @ Rx


def S_orthotropic(E1, E2, E3, G23, G13, G12, v23, v13, v12):
    """Kelvin-Mandel compliance in the material frame (independent reference)."""
    S = np.zeros((6, 6))
    S[0, 0], S[1, 1], S[2, 2] = 1 / E1, 1 / E2, 1 / E3
    S[0, 1] = S[1, 0] = -v12 / E1
    S[0, 2] = S[2, 0] = -v13 / E1
    S[1, 2] = S[2, 1] = -v23 / E2
    S[3, 3], S[4, 4], S[5, 5] = 1 / (2 * G23), 1 / (2 * G13), 1 / (2 * G12)
    return S


El, Et, Gl, vl, vt = 130e3, 9e3, 5e3, 0.3, 0.4
orth = dict(E1=130e3, E2=20e3, E3=9e3, G23=3e3, G13=5e3, G12=6e3, v23=0.3, v13=0.25, v12=0.2)
rng = np.random.default_rng(0)
A = rng.normal(size=(6, 6))
C_aniso = A @ A.T + 6 * np.eye(6)  # SPD, Kelvin-Mandel, material frame

builders = {
    "TransverselyIsotropic": lambda a, b: Models.Elastic.TransverselyIsotropic(
        3, El, Et, Gl, vl, vt, axis_l=a, axis_t=b
    ),
    "Orthotropic": lambda a, b: Models.Elastic.Orthotropic(3, **orth, axis_1=a, axis_2=b),
    "Anisotropic": lambda a, b: Models.Elastic.Anisotropic(3, C_aniso, False, axis1=a, axis2=b),
}
C_material = {
    "TransverselyIsotropic": np.linalg.inv(
        S_orthotropic(El, Et, Et, Et / (2 * (1 + vt)), Gl, Gl, vt, vl, vl)
    ),
    "Orthotropic": np.linalg.inv(S_orthotropic(**orth)),
    "Anisotropic": C_aniso,
}

angles = [(10, 20, 30), (30, 40, 50), (25, 35, 50), (12, 34, 56), (20, 40, 60), (70, 15, 5),
          (5, 85, 40), (33, 66, 99), (45, 45, 45), (1, 2, 3)]
lengths = [1.0, 1e2, 1e3, 1e4, 1e6]

nRefused = {L: 0 for L in lengths}
nWrong = 0
nTotal = {L: 0 for L in lengths}
first = None

for L in lengths:
    for ang in angles:
        Q = rotation(*ang)
        a, b = L * Q[:, 0], L * Q[:, 1]
        cosine = abs(a @ b) / (np.linalg.norm(a) * np.linalg.norm(b))
        assert cosine < 1e-15, "the pair is perpendicular to round-off"
        # the exported helper accepts the pair and gives an orthogonal matrix
        P = Get_Pmat(a, b)
        assert np.abs(P @ P.T - np.eye(6)).max() < 1e-14
        for name, build in builders.items():
            nTotal[L] += 1
            C_ref = Apply_Pmat(P, C_material[name])  # Q-rotated tensor
            try:
                C = build(a, b).C
            except AssertionError as err:
                nRefused[L] += 1
                if first is None:
                    first = (name, ang, L, a @ b, cosine, str(err))
                continue
            if np.abs(C - C_ref).max() / np.abs(C_ref).max() > 1e-10:
                nWrong += 1

for L in lengths:
    print(f"axis length {L:8.0e}: {nRefused[L]:2d} / {nTotal[L]} perpendicular axis pairs refused")
print(f"laws built but different from the Q-rotated reference: {nWrong}")
if first is not None:
    name, ang, L, dot, cosine, msg = first
    print(f"first refusal: {name}, Euler angles {ang}, |axis| = {L:g}: "
          f"axis_1 @ axis_2 = {dot:.3e} (cosine {cosine:.1e}) -> AssertionError: {msg}")

# the same test is one-sided: a clearly non perpendicular pair passes the constructor
try:
    m = Models.Elastic.TransverselyIsotropic(3, El, Et, Gl, vl, vt, axis_l=(1, 0, 0), axis_t=(-1, 1, 0))
    print("note: axis_l=(1,0,0), axis_t=(-1,1,0) (135 degrees apart) is accepted by the constructor"
          " (only Get_Pmat complains, later, when C is first read)")
except AssertionError:
    pass

defect = sum(nRefused.values()) > 0 or nWrong > 0
print("DEFECT" if defect else "ok")
sys.exit(1 if defect else 0)
