"""Defect of the UNCHANGED library (C03: dof numbering node * dof_n + component of the scatter-add).

_GroupElem._Get_assembly_e (EasyFEA/FEM/_group_elem.py) computes the dofs of the elements with

    assembly = np.zeros((Ne, ndof), dtype=np.int64)
    assembly[:, columns] = np.array(connect) * dof_n + d

The product is evaluated in the dtype of the CONNECTIVITY and only then stored in the int64 array.  The
constructor of the group keeps the connectivity array it is given with its dtype (no cast), so a mesh built
from a compact connectivity (np.uint16 / np.int16: enough for the node numbers of a mesh below 65 536 /
32 768 nodes, and what some readers return) wraps around as soon as  node * dof_n + d  exceeds the range of
that dtype, although every node number fits.  (BoundaryCondition.Get_dofs_nodes casts to int first and is
right: boundary conditions and matrices then use different dof numberings.)

Consequences seen here, 2D elasticity (dof_n = 2) on a 200 x 200 grid of QUAD4 (40 401 nodes):
  * uint16 connectivity: no error, K is assembled on the wrong rows / columns (the dofs >= 65 536 are folded
    back on 0 .. 15 265): K differs from the K of the same mesh with an int64 connectivity,
  * (with an int16 connectivity node * 2 becomes negative from node 16 384 on),
  * an int32 connectivity is fine at this size (it would need node * dof_n >= 2^31).

exit 1 when the defect is present, 0 otherwise.
"""

import sys
import numpy as np

import EasyFEA
from EasyFEA import Models, Simulations
from EasyFEA.FEM import Mesh, GroupElemFactory, ElemType


def build(n: int, dtype) -> Mesh:
    x = np.linspace(0, 1, n + 1)
    X, Y = np.meshgrid(x, x, indexing="ij")
    coord = np.c_[X.ravel(), Y.ravel(), np.zeros(X.size)]
    idx = np.arange(X.size).reshape(n + 1, n + 1)
    connect = np.c_[
        idx[:-1, :-1].ravel(), idx[1:, :-1].ravel(), idx[1:, 1:].ravel(), idx[:-1, 1:].ravel()
    ].astype(dtype)
    assert connect.max() == X.size - 1  # every node number fits in the dtype
    return Mesh({ElemType.QUAD4: GroupElemFactory.Create(ElemType.QUAD4, connect, coord)})


def main() -> int:
    print("EasyFEA:", EasyFEA.__file__)
    n = 200
    mat = Models.Elastic.Isotropic(2, E=1.0, v=0.3, planeStress=True, thickness=1.0)

    K_ref = Simulations.Elastic(build(n, np.int64), mat).Get_K_C_M_F()[0]

    bad = []
    for dtype in (np.int32, np.uint16):
        mesh = build(n, dtype)
        try:
            K = Simulations.Elastic(mesh, mat).Get_K_C_M_F()[0]
        except Exception as err:  # noqa: BLE001
            bad.append(f"connectivity {np.dtype(dtype)}: assembly raised {type(err).__name__}: {err}")
            continue
        diff = abs(K - K_ref).max() / abs(K_ref).max()
        a = mesh.groupElem.Get_assembly_e(2)
        print(f"connectivity {np.dtype(dtype)}: max dof used by the assembly = {a.max()} (expected {2 * mesh.Nn - 1}), rel. diff on K = {diff:.3e}")
        if not diff <= 1e-12:
            bad.append(
                f"connectivity {np.dtype(dtype)} ({mesh.Nn} nodes, all representable): K differs from the K of the "
                f"same mesh with an int64 connectivity, rel. {diff:.3e}; largest dof of Get_assembly_e = {a.max()} "
                f"instead of {2 * mesh.Nn - 1}"
            )

    if bad:
        print("DEFECT PRESENT:")
        for b in bad:
            print("  -", b)
        return 1
    print("no defect")
    return 0


if __name__ == "__main__":
    sys.exit(main())
