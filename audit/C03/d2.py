"""C03 / d2 -- BiLinearForm puts the (test, trial) entry at row = trial, column = test.

Weak problem of the WeakForms model: find u such that a(u, v) = l(v) for every test function v, discretised as
K u = F (docstring of Models.WeakForms / Simulations.WeakForms: "K u + C v + M a = F").  With u = sum_j u_j phi_j
and v = phi_i this requires K[i, j] = a(phi_j, phi_i): row = test function, column = trial function.

`BiLinearForm.Integrate_e` / `BiLinearForm.Assemble` (EasyFEA/FEM/_forms.py) store a(phi_i, phi_j) -- `u` (trial) active on
dof i, `v` (test) active on dof j -- in `data[:, i, j]`: every element matrix, and therefore the global matrix, is the
transpose of the one the system K u = F needs.  Invisible for the symmetric forms of the examples, wrong for any other
form.  Shown on steady advection-diffusion  -eps u'' + b u' = 0, u(0) = 0, u(1) = 1 :
    exact   u(x) = (exp(b x / eps) - 1) / (exp(b / eps) - 1)       (boundary layer at x = 1)
    library u(x) = the solution for the velocity -b                (boundary layer at x = 0)
"""

import sys
import numpy as np

from EasyFEA import Mesher, ElemType, Models, Simulations
from EasyFEA.Geoms import Domain, Point
from EasyFEA.FEM import Field, BiLinearForm, MatrixType

eps, bx = 0.1, 1.0
b = np.array([bx, 0.0])
one = np.array([1.0])

mesh = Mesher().Mesh_2D(
    Domain(Point(), Point(1, 0.1), 0.02), [], ElemType.TRI3, isOrganised=True
)
groupElem = mesh.groupElem
field = Field(groupElem, 1)


@BiLinearForm
def a(u: Field, v: Field):
    # a(u, v) = int eps grad(u).grad(v) + (b.grad(u)) v      (u: trial / unknown, v: test)
    return eps * u.grad.dot(v.grad) + u.grad.dot(b) * v.dot(one)


# ------------------------------------------------------------------ 1) element matrices vs an independent integration
K_e = a.Integrate_e(field)
mt = MatrixType.mass  # the quadrature the field uses by default
N = np.asarray(groupElem.Get_N_pg(mt))[:, 0, :]  # (nPg, nPe)
dN = np.asarray(groupElem.Get_dN_e_pg(mt))[:, :, :2, :]  # (Ne, nPg, 2, nPe)
wJ = np.asarray(groupElem.Get_weightedJacobian_e_pg(mt))  # (Ne, nPg)
# Kref[e, i, j] = a(phi_j, phi_i) = int eps grad(phi_j).grad(phi_i) + (b.grad(phi_j)) phi_i
Kref_e = eps * np.einsum("ep,epdi,epdj->eij", wJ, dN, dN) + np.einsum(
    "ep,pi,d,epdj->eij", wJ, N, b, dN
)
scale = np.abs(Kref_e).max()
err_direct = np.abs(K_e - Kref_e).max() / scale
err_transposed = np.abs(K_e - Kref_e.transpose(0, 2, 1)).max() / scale
print(f"element matrices: |K_e - Kref_e| = {err_direct:.2e}   |K_e - Kref_e^T| = {err_transposed:.2e}")

# the global matrix of the sibling entry point BiLinearForm.Assemble, against a dense scatter-add of Kref_e
Kref = np.zeros((mesh.Nn, mesh.Nn))
for e, nodes in enumerate(groupElem.connect):
    Kref[np.ix_(nodes, nodes)] += Kref_e[e]
K_form = a.Assemble(field).toarray()
err_glob = np.abs(K_form - Kref).max() / np.abs(Kref).max()
err_globT = np.abs(K_form - Kref.T).max() / np.abs(Kref).max()
print(f"BiLinearForm.Assemble: |K - Kref| = {err_glob:.2e}   |K - Kref^T| = {err_globT:.2e}")

# ------------------------------------------------------------------ 2) the solution of the simulation vs the closed form
simu = Simulations.WeakForms(mesh, Models.WeakForms(field, computeK=a))
simu.add_dirichlet(mesh.Nodes_Conditions(lambda x, y, z: x == 0), [0.0], ["u"])
simu.add_dirichlet(mesh.Nodes_Conditions(lambda x, y, z: x == 1), [1.0], ["u"])
u = simu.Solve()

x = mesh.coord[:, 0]
u_exact = np.expm1(bx * x / eps) / np.expm1(bx / eps)
u_adjoint = np.expm1(-bx * x / eps) / np.expm1(-bx / eps)
err_exact = np.abs(u - u_exact).max()
err_adjoint = np.abs(u - u_adjoint).max()
mid = np.argmin(np.abs(x - 0.5) + np.abs(mesh.coord[:, 1] - 0.05))
print(f"u(0.5): library = {u[mid]:.5f}   exact = {u_exact[mid]:.5f}   velocity reversed = {u_adjoint[mid]:.5f}")
print(f"max |u - exact| = {err_exact:.3e}     max |u - solution for -b| = {err_adjoint:.3e}")

defect = err_direct > 1e-6 or err_exact > 5e-2
if defect:
    print("DEFECT: the bilinear form is assembled transposed (row = trial dof, column = test dof).")
    sys.exit(1)
print("ok: K[i, j] = a(phi_j, phi_i)")
sys.exit(0)
