"""C03 / d1 -- the matrices returned by `simu.Assembly()` share their CSR index arrays with each other and with the
cached sparsity pattern, so one in-place structural operation on one of them corrupts the others and every later assembly.

`_Simu.__Assemble_csr` (EasyFEA/Simulations/_simu.py) builds each matrix as
    sparse.csr_matrix((csr_data, indices, indptr), shape=shape)
with the `indices` / `indptr` arrays held in the `@cache_computed_values` entry of `__Get_csr_map`; scipy does not copy
them.  K, C and M (same key) are therefore three views on ONE writable pair of index arrays, which is also the pattern
every later assembly reuses.  `M.eliminate_zeros()` -- an ordinary thing to do with the mass matrix of an elastic
problem, half of whose stored entries are the structural zeros of the x-y coupling -- compacts these arrays in place:
  * the K returned by the very same call no longer is the sum of the element matrices,
  * every later assembly (Get_K_C_M_F, Solve) scatters into the damaged pattern: silently wrong K, M and solution.
Reference: dense loop summation of Construct_local_matrix_system, and a fresh simulation that never called Assembly().
"""

import sys
import numpy as np

from EasyFEA import Mesher, ElemType, Models, Simulations
from EasyFEA.Geoms import Domain, Point


def build():
    mesh = Mesher().Mesh_2D(Domain(Point(), Point(1, 1), 0.25), [], ElemType.TRI3)
    mat = Models.Elastic.Isotropic(2, 210e9, 0.3, planeStress=True, thickness=0.1)
    simu = Simulations.Elastic(mesh, mat)
    simu.rho = 7800.0
    left = mesh.Nodes_Conditions(lambda x, y, z: x == 0)
    right = mesh.Nodes_Conditions(lambda x, y, z: x == 1)
    simu.add_dirichlet(left, [0, 0], ["x", "y"])
    simu.add_lineLoad(right, [1e6], ["y"])
    return simu


def dense_sum(simu, slot):
    """Independent scatter-add of the element matrices of `slot` (0: K, 2: M)."""
    pt = simu.problemType
    dof_n = simu.Get_dof_n(pt)
    Ndof = simu.mesh.Nn * dof_n
    A = np.zeros((Ndof, Ndof))
    for groupElem, KCMF in simu.Construct_local_matrix_system(pt).items():
        X_e = np.asarray(KCMF[slot])
        for e, nodes in enumerate(groupElem.connect):
            dofs = (nodes[:, None] * dof_n + np.arange(dof_n)).ravel()
            A[np.ix_(dofs, dofs)] += X_e[e]
    return A


def rel(A, R):
    return np.abs(A - R).max() / np.abs(R).max()


# reference: a simulation that only goes through Get_K_C_M_F / Solve
ref = build()
u_ref = ref.Solve().copy()

simu = build()
Kref, Mref = dense_sum(simu, 0), dense_sum(simu, 2)

K, C, M, F = simu.Assembly(simu.problemType)
print(f"first assembly            : |K - sum K_e| = {rel(K.toarray(), Kref):.1e}   |M - sum M_e| = {rel(M.toarray(), Mref):.1e}")
print(f"K, C, M share index arrays: {np.shares_memory(K.indices, M.indices)}, {np.shares_memory(K.indptr, C.indptr)}"
      f"   (stored zeros in M: {(M.data == 0).sum()} of {M.nnz})")

M.eliminate_zeros()  # in-place scipy operation on ONE of the returned matrices

err_K_same_call = rel(K.toarray(), Kref)
print(f"after M.eliminate_zeros() : |K - sum K_e| = {err_K_same_call:.2e}   (K of the same Assembly() call; nnz {K.nnz}, data {K.data.size})")

simu.Need_Update()
K2, _, M2, _ = simu.Get_K_C_M_F()
err_K_later, err_M_later = rel(K2.toarray(), Kref), rel(M2.toarray(), Mref)
print(f"next assembly             : |K - sum K_e| = {err_K_later:.2e}   |M - sum M_e| = {err_M_later:.2e}")

try:
    u = simu.Solve()
    err_u = np.abs(u - u_ref).max() / np.abs(u_ref).max()
    print(f"Solve()                   : |u - u_ref| / |u_ref| = {err_u:.2e}   (no error raised)")
except Exception as exc:  # noqa
    err_u = np.inf
    print(f"Solve() raised {type(exc).__name__}: {exc}")

defect = max(err_K_same_call, err_K_later, err_M_later, err_u) > 1e-8
if defect:
    print("DEFECT: the assembled matrices alias the cached sparsity pattern (and each other).")
    sys.exit(1)
print("ok: the returned matrices own their index arrays")
sys.exit(0)
