"""Defect of the UNCHANGED library, found next to C03 (which rows / columns the element entries go to).

BiLinearForm.Integrate_e (EasyFEA/FEM/_forms.py) fills the element matrix of a form  a(u, v)  with

    for i in dofs:      # u (the unknown / trial function) active on dof i
        for j in dofs:  # v (the test function) active on dof j
            data[:, i, j] = integral of form(u_i, v_j)

i.e. the ROW is the dof of the unknown u and the COLUMN the dof of the test function v, whereas
LinearForm.Integrate_e puts  l(v_i)  on row i (row = test function) and the simulation solves K u = F.
The consistent element matrix is K_e[i, j] = a(u_j, v_i): the one built is its transpose.  Nothing shows
for the symmetric forms of the tests and examples (Poisson, elasticity); for a non symmetric form the
assembled operator is the ADJOINT one.

Check 1 (operator):  with U = nodal values of x and V = 1,   V^T K U  must be  int 1 * d(x)/dx = area = 1
                     and  U^T K V = int x * d(1)/dx = 0   for  a(u, v) = v du/dx.   The library gives 0 and 1.
Check 2 (solution):  Simulations.WeakForms with  a(u, v) = eps grad u . grad v + b v du/dx  on the unit square,
                     u = 0 at x = 0, u = 1 at x = 1  (-eps u'' + b u' = 0, exact  (e^{b x/eps} - 1) / (e^{b/eps} - 1)).
                     The computed solution is the one of the adjoint problem (b -> -b).

exit 1 when the defect is present, 0 otherwise.
"""

import sys
import numpy as np

import EasyFEA
from EasyFEA import Models, Simulations
from EasyFEA.FEM import Mesh, GroupElemFactory, ElemType, Field, BiLinearForm


def build(nx: int, ny: int) -> Mesh:
    x = np.linspace(0, 1, nx + 1)
    y = np.linspace(0, 1, ny + 1)
    X, Y = np.meshgrid(x, y, indexing="ij")
    coord = np.c_[X.ravel(), Y.ravel(), np.zeros(X.size)]
    idx = np.arange(X.size).reshape(nx + 1, ny + 1)
    connect = np.c_[
        idx[:-1, :-1].ravel(), idx[1:, :-1].ravel(), idx[1:, 1:].ravel(), idx[:-1, 1:].ravel()
    ]
    return Mesh({ElemType.QUAD4: GroupElemFactory.Create(ElemType.QUAD4, connect, coord)})


def main() -> int:
    print("EasyFEA:", EasyFEA.__file__)
    bad = []

    # ---- check 1: the operator
    mesh = build(4, 4)
    field = Field(mesh.groupElem, 1)

    @BiLinearForm
    def convection(u: Field, v: Field):
        return u.grad[..., 0] * v()[..., 0]  # v du/dx

    K = convection.Assemble(field)
    U = mesh.coord[:, 0]
    V = np.ones(mesh.Nn)
    vKu = V @ (K @ U)
    uKv = U @ (K @ V)
    print(f"a(u,v) = v du/dx:  V^T K U = {vKu:.6f} (expected a(x, 1) = 1),  U^T K V = {uKv:.6f} (expected a(1, x) = 0)")
    if not (abs(vKu - 1) < 1e-9 and abs(uKv) < 1e-9):
        bad.append(
            f"BiLinearForm.Assemble: V^T K U = {vKu:.3g} instead of a(U, V) = 1 and U^T K V = {uKv:.3g} instead of "
            "a(V, U) = 0: the row of K is the dof of the unknown, the column the dof of the test function (transposed)"
        )

    # ---- check 2: the solution of a convection-diffusion problem
    eps, b = 1.0, 3.0
    mesh = build(60, 2)
    field = Field(mesh.groupElem, 1)

    @BiLinearForm
    def convection_diffusion(u: Field, v: Field):
        return eps * u.grad.dot(v.grad) + b * u.grad[..., 0] * v()[..., 0]

    simu = Simulations.WeakForms(mesh, Models.WeakForms(field, convection_diffusion))
    simu.add_dirichlet(mesh.Nodes_Conditions(lambda x, y, z: x == 0), [0], ["u"])
    simu.add_dirichlet(mesh.Nodes_Conditions(lambda x, y, z: x == 1), [1], ["u"])
    u = simu.Solve()
    x = mesh.coord[:, 0]
    exact = np.expm1(b * x / eps) / np.expm1(b / eps)
    adjoint = np.expm1(-b * x / eps) / np.expm1(-b / eps)
    e1 = np.abs(u - exact).max()
    e2 = np.abs(u - adjoint).max()
    print(f"-eps u'' + b u' = 0:  max|u - exact| = {e1:.3e},  max|u - solution of the adjoint problem (b -> -b)| = {e2:.3e}")
    if not e1 < 1e-2:
        bad.append(
            f"Simulations.WeakForms, a(u,v) = eps grad u.grad v + b v du/dx: max error {e1:.3e} w.r.t. the exact solution "
            f"(and {e2:.3e} w.r.t. the solution with the opposite velocity)"
        )

    if bad:
        print("DEFECT PRESENT:")
        for m in bad:
            print("  -", m)
        return 1
    print("no defect")
    return 0


if __name__ == "__main__":
    sys.exit(main())
