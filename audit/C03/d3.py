"""C03 / d3 -- complex element values are reduced to their real part before they reach the assembly.

`_Simu.__Assemble_csr` sums complex element values on purpose (real and imaginary parts, one bincount each), and the
property covers complex values.  But the element matrices / vectors of a weak-form model never arrive complex:
`BiLinearForm.Integrate_e` and `LinearForm.Integrate_e` (EasyFEA/FEM/_forms.py) allocate
    data = np.zeros((Ne, nPe*dof_n, nPe*dof_n), dtype=float)
and write `data[:, i, j] = values_e`: numpy casts, the imaginary part is dropped (a ComplexWarning is the only trace).
`BiLinearForm.Assemble`, `LinearForm.Assemble` and `Simulations.WeakForms.Assembly / Get_K_C_M_F` then return the real
part of the matrix / vector of the form.  Shown on a damped Helmholtz form
    a(u, v) = int grad(u).grad(v) - k^2 u v,   k = 3 + 0.5j          l(v) = int (1 + 2j) v
Reference: dense scatter-add of element matrices integrated directly with numpy from the shape functions.
"""

import sys
import warnings
import numpy as np

from EasyFEA import Mesher, ElemType, Models, Simulations
from EasyFEA.Geoms import Domain, Point
from EasyFEA.FEM import Field, BiLinearForm, LinearForm, MatrixType

warnings.simplefilter("ignore")  # the ComplexWarning of numpy is the only symptom

k2 = (3.0 + 0.5j) ** 2
f = 1.0 + 2.0j

mesh = Mesher().Mesh_2D(Domain(Point(), Point(1, 1), 0.2), [], ElemType.TRI6)
groupElem = mesh.groupElem
field = Field(groupElem, 1)


@BiLinearForm
def a(u: Field, v: Field):
    return u.grad.dot(v.grad) - k2 * u.dot(v)


@LinearForm
def l(v: Field):
    return f * v


# ---------------------------------------------------------------- independent reference
mt = MatrixType.mass
N = np.asarray(groupElem.Get_N_pg(mt))[:, 0, :]  # (nPg, nPe)
dN = np.asarray(groupElem.Get_dN_e_pg(mt))[:, :, :2, :]  # (Ne, nPg, 2, nPe)
wJ = np.asarray(groupElem.Get_weightedJacobian_e_pg(mt))  # (Ne, nPg)
Kref_e = np.einsum("ep,epdi,epdj->eij", wJ, dN, dN) - k2 * np.einsum("ep,pi,pj->eij", wJ, N, N)
Fref_e = f * np.einsum("ep,pi->ei", wJ, N)
Nn = mesh.Nn
Kref = np.zeros((Nn, Nn), dtype=complex)
Fref = np.zeros(Nn, dtype=complex)
for e, nodes in enumerate(groupElem.connect):
    Kref[np.ix_(nodes, nodes)] += Kref_e[e]
    Fref[nodes] += Fref_e[e]

# ---------------------------------------------------------------- the library
K_e = a.Integrate_e(field)
F_e = l.Integrate_e(field)
print(f"Integrate_e dtypes: K_e {K_e.dtype}, F_e {F_e.dtype}   (the forms return complex values)")

simu = Simulations.WeakForms(mesh, Models.WeakForms(field, computeK=a, computeF=l))
K, _, _, F = simu.Get_K_C_M_F()
K_form = a.Assemble(field)
F_form = l.Assemble(field)


def rel(A, R):
    return np.abs(A - R).max() / np.abs(R).max()


errK = rel(K.toarray(), Kref)
errF = rel(F.toarray().ravel(), Fref)
errK_form = rel(K_form.toarray(), Kref)
errF_form = rel(F_form.toarray().ravel(), Fref)
errK_real = rel(K.toarray(), Kref.real)
print(f"simu.Get_K_C_M_F     : |K - sum K_e| = {errK:.2e}   |F - sum F_e| = {errF:.2e}   (dtype {K.dtype})")
print(f"BiLinear/LinearForm.Assemble: |K - sum K_e| = {errK_form:.2e}   |F - sum F_e| = {errF_form:.2e}")
print(f"against the real part only  : |K - Re sum K_e| = {errK_real:.2e}")

if max(errK, errF, errK_form, errF_form) > 1e-8:
    print("DEFECT: the imaginary part of the element contributions is dropped.")
    sys.exit(1)
print("ok: complex forms are assembled as complex matrices")
sys.exit(0)
