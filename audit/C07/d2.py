"""C07 / d2 -- Simulations._Simu.center (centre of mass of a 2D / 3D simulation) cannot be obtained.

The centroid is the quadrature  sum_e sum_pg rho wJ x / mass.  _Simu.center reduces the
(Ne, nPg, 3) array with .sum() (all axes) instead of .sum(axis=(0, 1)), so the three
components are merged into one scalar.  With a scalar density the built-in self check
against mesh.center then raises AssertionError; with a density given as an array the check
is skipped and a wrong centre (cx+cy+cz repeated three times) is returned silently.

Reference: closed form for a rectangle / box, and a direct numpy quadrature for the
heterogeneous density.
"""

import sys
import numpy as np

from EasyFEA import Mesher, ElemType, MatrixType, Models, Simulations
from EasyFEA.Geoms import Point, Domain

defect = False

# ---------------------------------------------------------------- homogeneous density, 2D and 3D
contour = Domain(Point(0, 0), Point(2, 3), meshSize=0.5)
cases = [
    ("2D TRI3", Mesher().Mesh_2D(contour, [], ElemType.TRI3), 2, np.array([1.0, 1.5, 0.0])),
    ("2D QUAD8", Mesher().Mesh_2D(contour, [], ElemType.QUAD8, isOrganised=True), 2, np.array([1.0, 1.5, 0.0])),
    ("3D HEXA8", Mesher().Mesh_Extrude(contour, [], [0, 0, 1], [2], ElemType.HEXA8, isOrganised=True), 3, np.array([1.0, 1.5, 0.5])),
]
for name, mesh, dim, exact in cases:
    if dim == 2:
        material = Models.Elastic.Isotropic(2, E=1.0, v=0.3, planeStress=True, thickness=0.1)
    else:
        material = Models.Elastic.Isotropic(3, E=1.0, v=0.3)
    simu = Simulations.Elastic(mesh, material, verbosity=False)
    simu.rho = 2.0
    print(f"{name}: mesh.center = {mesh.center} (exact {exact}), simu.mass = {simu.mass:.6g}")
    try:
        center = simu.center
        err = np.abs(center - exact).max()
        print(f"    simu.center = {center}, error {err:.2e}")
        defect |= err > 1e-10
    except AssertionError:
        print("    simu.center raised AssertionError (its own consistency check against mesh.center fails)")
        defect = True

# ---------------------------------------------------------------- heterogeneous density (array): no check, wrong value
mesh = cases[0][1]
simu = Simulations.Elastic(mesh, Models.Elastic.Isotropic(2, E=1.0, v=0.3, planeStress=True, thickness=0.1), verbosity=False)
groupElem = mesh.groupElem
xg = np.asarray(groupElem.Get_GaussCoordinates_e_pg(MatrixType.mass))  # (Ne, nPg, 3)
rho_e_pg = 1.0 + xg[..., 0]  # rho = 1 + x, given at the integration points of the mass rule
simu.rho = rho_e_pg
# rho = 1 + x on [0,2]x[0,3]: mass/thickness = 3 * (2 + 2) = 12, x_c = 3 * (2 + 8/3) / 12, y_c = 1.5
exact = np.array([3 * (2 + 8 / 3) / 12, 1.5, 0.0])
wJ = np.asarray(groupElem.Get_weightedJacobian_e_pg(MatrixType.mass))
ref = np.einsum("ep,ep,epi->i", rho_e_pg, wJ, xg) / np.einsum("ep,ep->", rho_e_pg, wJ)
try:
    center = simu.center
    print(f"rho = 1 + x (array): simu.center = {center}; exact {exact}; numpy quadrature {ref}")
    defect |= np.abs(center - exact).max() > 1e-10
except AssertionError:
    print("rho array: AssertionError")
    defect = True

print("DEFECT: the centre of mass of the simulation is not the centroid" if defect else "OK")
sys.exit(1 if defect else 0)
