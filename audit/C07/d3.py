"""C07 / d3 -- integer-typed node coordinates are truncated for every group with dim != inDim.

_GroupElem.Get_F_e_pg copies the element coordinates (`rebased_coord_e = coord_e.copy()`, which
keeps the dtype of the array the mesh was built from) and, for groups embedded in a space of
higher dimension (boundary segments of a 2D mesh, triangles / quadrangles in 3D), writes the
coordinates expressed in the element basis back into that copy.  If the coordinates were given
as an integer array (np.meshgrid(np.arange(..)), np.array([[0, 0, 0], [3, 0, 0], ..])) the
assignment truncates them to integers: lengths, areas, centroids-weights and every integral
over such groups are silently wrong, while the very same mesh given as floats is exact.

Reference: closed forms (parallelogram, triangle in space).
"""

import sys
import numpy as np

from EasyFEA import ElemType
from EasyFEA.FEM import GroupElemFactory, Mesh

defect = False


def check(name, got, exact, tol=1e-12):
    global defect
    err = abs(got - exact) / abs(exact)
    bad = err > tol
    defect |= bad
    print(f"    {name:38s} = {got:.12g}   exact {exact:.12g}   rel. err {err:.1e} {'<-- WRONG' if bad else ''}")


# ---------------------------------------------------------------- A. 2D mesh: sheared structured grid, integer nodes
nx, ny = 4, 3
I, J = np.meshgrid(np.arange(nx + 1), np.arange(ny + 1), indexing="ij")
coordInt = np.stack([(I + J).ravel(), J.ravel(), 0 * I.ravel()], axis=1)  # x = i + j, y = j  (int64)
nid = lambda i, j: i * (ny + 1) + j  # noqa: E731
quads = np.array([[nid(i, j), nid(i + 1, j), nid(i + 1, j + 1), nid(i, j + 1)] for i in range(nx) for j in range(ny)])
segs = np.array(
    [[nid(i, 0), nid(i + 1, 0)] for i in range(nx)] + [[nid(nx, j), nid(nx, j + 1)] for j in range(ny)]
    + [[nid(i + 1, ny), nid(i, ny)] for i in range(nx)] + [[nid(0, j + 1), nid(0, j)] for j in range(ny)]
)
areaExact = nx * ny
perimeterExact = 2 * nx + 2 * ny * np.sqrt(2)
# integral of x + y over the boundary: each side has a linear integrand -> length * mean of the two end values
ends = lambda a, b: np.linalg.norm(np.subtract(b, a)) * (sum(a) + sum(b)) / 2  # noqa: E731
P0, P1, P2, P3 = (0, 0), (nx, 0), (nx + ny, ny), (ny, ny)
lineIntExact = ends(P0, P1) + ends(P1, P2) + ends(P2, P3) + ends(P3, P0)

for label, coord in [("float64 coordinates", coordInt.astype(float)), ("int64 coordinates  ", coordInt)]:
    print(f"A. sheared {nx}x{ny} QUAD4 grid + SEG2 boundary, {label} (dtype {coord.dtype})")
    mesh = Mesh(
        {
            ElemType.QUAD4: GroupElemFactory.Create(ElemType.QUAD4, quads, coord),
            ElemType.SEG2: GroupElemFactory.Create(ElemType.SEG2, segs, coord),
        }
    )
    boundary = mesh.Get_list_groupElem(1)[0]
    check("mesh.area", mesh.area, areaExact)
    check("mesh.length (perimeter)", mesh.length, perimeterExact)
    check("boundary.Integrate_e(x + y).sum()", boundary.Integrate_e(lambda x, y, z: x + y).sum(), lineIntExact)
    if coord.dtype.kind == "i":
        mesh.Translate(0.0, 0.0, 0.0)  # any transformation stores float coordinates
        print("    after mesh.Translate(0, 0, 0):")
        check("mesh.length (perimeter)", mesh.length, perimeterExact)

# ---------------------------------------------------------------- B. triangles in space
C = np.array([[0, 0, 0], [3, 0, 0], [0, 2, 2], [3, 2, 2]])
tris = np.array([[0, 1, 2], [1, 3, 2]])
for label, coord in [("float64", C.astype(float)), ("int64  ", C)]:
    print(f"B. two TRI3 spanning the rectangle (0,0,0)-(3,0,0)-(3,2,2)-(0,2,2), {label}")
    group = GroupElemFactory.Create(ElemType.TRI3, tris, coord)
    check("groupElem.area", group.area, 3 * np.sqrt(8))
    check("Integrate_e(x + y + 1).sum()", group.Integrate_e(lambda x, y, z: x + y + 1).sum(), 3 * np.sqrt(8) * (1.5 + 1 + 1))

print("DEFECT: integer-typed coordinates give truncated lengths / areas / integrals" if defect else "OK")
sys.exit(1 if defect else 0)
