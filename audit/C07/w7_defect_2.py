"""Defect of the UNCHANGED library (C07: centroids are exact) -- sibling entry point of mesh.center.

Simulations._Simu.center (centre of mass of a simulation, EasyFEA/Simulations/_simu.py) computes
    contrib = (rho_e_pg * wJ_e_pg * coord_e_pg / mass).sum()
`.sum()` without axis on the (Ne, nPg, 3) array adds the three coordinates together: the 'centre'
is the scalar xg+yg+zg broadcast to the three components.
  - with a scalar density the property then trips its own consistency assertion against mesh.center
    (bare AssertionError) for practically every mesh;
  - with a density given per element (np.ndarray, so the assertion is skipped) it silently returns
    e.g. [1.5, 1.5, 1.5] for the rectangle [0,2]x[0,1] (centroid (1, 0.5, 0)).
The intended reduction is .sum(axis=(0, 1)).

exit 1 when the defect is present, 0 otherwise.
"""

import sys
import numpy as np
from EasyFEA import ElemType, Models, Simulations
from EasyFEA.Geoms import Points

contour = Points([(0, 0), (2, 0), (2, 1), (0, 1)], 0.5)
mesh = contour.Mesh_2D([], ElemType.TRI3)
mat = Models.Elastic.Isotropic(2, 210000, 0.3, thickness=1.0)
simu = Simulations.Elastic(mesh, mat)

exact = np.array([1.0, 0.5, 0.0])
bad = []
print("mesh.center =", mesh.center)

simu.rho = 2.0
try:
    c = simu.center
    print("simu.center (scalar rho) =", c)
    if np.abs(c - exact).max() > 1e-9:
        bad.append(f"scalar rho: simu.center = {c}, expected {exact}")
except AssertionError:
    bad.append("scalar rho: simu.center raises a bare AssertionError (its own check against mesh.center fails)")

simu.rho = np.full(mesh.Ne, 2.0)
c = simu.center
print("simu.center (rho per element) =", c)
if np.abs(c - exact).max() > 1e-9:
    bad.append(f"rho per element: simu.center = {c}, expected {exact}")

if bad:
    print("DEFECT present:")
    for b in bad:
        print("  -", b)
    sys.exit(1)
print("ok")
sys.exit(0)
