"""Observation on the UNCHANGED library, at the edge of C07 (the property only promises exactness for
STRAIGHT-sided elements, so this is reported as a limitation / inconsistency rather than a violation).

For a group embedded in a higher dimension (dim != inDim: boundary segments of a 2D mesh, faces of
a 3D mesh, tilted plane meshes) _GroupElem.Get_F_e_pg first projects the node coordinates of each
element on ONE basis per element built from its first vertices (_Get_sysCoord_e: i = chord
direction for a segment, the plane of the 3 first vertices for a face) and drops the other
components. For a curved quadratic / cubic element the out-of-chord (out-of-plane) part of the
geometry is therefore thrown away: the measure is that of the PROJECTION, i.e. the chord length for a
curved SEG3/SEG4/SEG5, the flat-facet area for a curved TRI6/QUAD8 face ..., however many Gauss
points are used, whereas the same curved edges seen from the 2D elements are integrated
isoparametrically:
  - disc of radius 1 meshed with TRI6 (8 SEG3 on the circle): mesh.area = 3.1391 (isoparametric,
    pi = 3.1416) but mesh.length = 6.1229 = sum of the chords (2 pi = 6.2832), same as with TRI3;
  - a single SEG3 (0,0)-(1,1) with mid node (0.8,0.2): length sqrt(2) instead of 1.7032.
Line / surface loads on curved boundaries inherit it (the total force of a unit pressure on the
circle is 2.5 % short whatever the element order).

exit 1 when the behaviour is present, 0 otherwise.
"""

import sys
import numpy as np
from EasyFEA import ElemType
from EasyFEA.FEM._group_elem import GroupElemFactory

c = np.array([[0, 0, 0], [1, 1, 0], [0.8, 0.2, 0]], float)
g = GroupElemFactory.Create(ElemType.SEG3, np.array([[0, 1, 2]]), c)

# length of the isoparametric parabola, by fine sampling
t = np.linspace(-1, 1, 400001)
N = np.array([t * (t - 1) / 2, t * (t + 1) / 2, 1 - t**2])
P = N.T @ c
L = np.linalg.norm(np.diff(P, axis=0), axis=1).sum()

print("curved SEG3: groupElem.length =", g.length, " isoparametric length =", L, " chord =", np.sqrt(2))
# the 2-point rule cannot be exact for the sqrt integrand: allow 2 %; the chord is 17 % short
if abs(g.length - L) / L > 0.02:
    print("BEHAVIOUR present: the length of a curved SEG3 in the plane is its chord length")
    sys.exit(1)
print("ok")
sys.exit(0)
