"""C07 / d1 -- the Euler-Bernoulli beam "consistent mass" is integrated with the stiffness rule.

Operators.Bilinear.BeamMass (used by Simulations.Beam) integrates  rho * N^T M N  with
MatrixType.beam.  That rule is sized for the stiffness integrand ddNv.ddNv (SEG2: 2 Gauss
points, exact up to degree 3).  For an Euler-Bernoulli member N holds the cubic Hermite
functions, so the mass integrand has degree 6 (SEG2) and needs 4 points.

Reference: closed-form consistent mass matrix of the 2-node Euler-Bernoulli element
    rho A L / 420 * [[156, 22L, 54, -13L], [22L, 4L^2, 13L, -3L^2], [54, 13L, 156, -22L], [-13L, -3L^2, -22L, 4L^2]]
(+ rho A L / 6 * [[2, 1], [1, 2]] for the axial part), assembled with numpy.
"""

import sys
import numpy as np

from EasyFEA import Mesher, ElemType, Models, Simulations
from EasyFEA.Geoms import Point, Domain, Line

L, nElem = 2.0, 4
E, rho = 210e9, 7800.0
b, h = 0.1, 0.2

mesher = Mesher()
section = mesher.Mesh_2D(Domain(Point(-b / 2, -h / 2), Point(b / 2, h / 2)))
line = Line(Point(0, 0), Point(L, 0), meshSize=L / nElem)
beam = Models.Beam.Isotropic(2, line, section, E=E, v=0.3)
mesh = mesher.Mesh_Beams([beam], elemType=ElemType.SEG2)
simu = Simulations.Beam(mesh, Models.Beam.BeamStructure([beam]), verbosity=False)  # Euler-Bernoulli (default)
simu.rho = rho

K, _, M, _ = simu.Get_K_C_M_F()
K, M = K.toarray(), M.toarray()
A, Iz = beam.area, beam.Iz
print(f"Ne = {mesh.Ne}, section area = {A:.6g} (exact {b*h:.6g}), Iz = {Iz:.6g} (exact {b*h**3/12:.6g})")

# ---- reference consistent mass, dofs (u, v, rz) per node
x = mesh.coord[:, 0]
Mref = np.zeros_like(M)
for n1, n2 in mesh.connect:
    if x[n2] < x[n1]:
        n1, n2 = n2, n1
    le = x[n2] - x[n1]
    mv = rho * A * le / 420 * np.array(
        [[156, 22 * le, 54, -13 * le],
         [22 * le, 4 * le**2, 13 * le, -3 * le**2],
         [54, 13 * le, 156, -22 * le],
         [-13 * le, -3 * le**2, -22 * le, 4 * le**2]])
    mu = rho * A * le / 6 * np.array([[2.0, 1.0], [1.0, 2.0]])
    dv = [3 * n1 + 1, 3 * n1 + 2, 3 * n2 + 1, 3 * n2 + 2]
    du = [3 * n1, 3 * n2]
    Mref[np.ix_(dv, dv)] += mv
    Mref[np.ix_(du, du)] += mu

relErr = np.linalg.norm(M - Mref) / np.linalg.norm(Mref)
axial = np.arange(0, M.shape[0], 3)
relErrAxial = np.linalg.norm(M[np.ix_(axial, axial)] - Mref[np.ix_(axial, axial)]) / np.linalg.norm(Mref[np.ix_(axial, axial)])
print(f"|M - M_consistent| / |M_consistent|          = {relErr:.3e}   (axial part only: {relErrAxial:.1e})")

sv = np.linalg.svd(M, compute_uv=False)
svRef = np.linalg.svd(Mref, compute_uv=False)
nullM = int((sv < 1e-10 * sv.max()).sum())
nullRef = int((svRef < 1e-10 * svRef.max()).sum())
print(f"nullity of the assembled mass matrix           = {nullM}   (exact consistent mass: {nullRef})")

# ---- first element, (v, rz) block in units of rho A l / 420 (closed form: 156, 22 l, 54, -13 l, 4 l^2, ...)
n1, n2 = sorted((int(n) for n in mesh.connect[0]), key=lambda n: x[n])
dv = [3 * n1 + 1, 3 * n1 + 2, 3 * n2 + 1, 3 * n2 + 2]
le = x[n2] - x[n1]
# contributions of the neighbours are removed by looking at a one-element structure
if True:
    line1 = Line(Point(0, 0), Point(le, 0), meshSize=le)
    beam1 = Models.Beam.Isotropic(2, line1, section, E=E, v=0.3)
    mesh1 = mesher.Mesh_Beams([beam1], elemType=ElemType.SEG2)
    simu1 = Simulations.Beam(mesh1, Models.Beam.BeamStructure([beam1]), verbosity=False)
    simu1.rho = rho
    M1 = simu1.Get_K_C_M_F()[2].toarray()
    a, c = sorted(range(2), key=lambda n: mesh1.coord[n, 0])
    d1 = [3 * a + 1, 3 * a + 2, 3 * c + 1, 3 * c + 2]
    np.set_printoptions(precision=3, suppress=True, linewidth=150)
    print(f"one element of length l = {le}: library (v, rz) block / (rho A l / 420) =")
    print(M1[np.ix_(d1, d1)] / (rho * A * le / 420))
    print("closed form =")
    print(np.array([[156, 22 * le, 54, -13 * le], [22 * le, 4 * le**2, 13 * le, -3 * le**2],
                    [54, 13 * le, 156, -22 * le], [-13 * le, -3 * le**2, -22 * le, 4 * le**2]]))

defect = relErr > 1e-8 or nullM != nullRef
print("DEFECT: the beam mass matrix is not the consistent mass (under-integrated, singular)" if defect else "OK")
sys.exit(1 if defect else 0)
