"""Defect of the UNCHANGED library (C07: lengths / areas of straight-sided elements are exact).

A group of elements embedded in a higher dimension (segments in the plane or in space, triangles /
quadrangles in space: dim != inDim, e.g. every boundary group of a mesh, every tilted plane mesh)
whose node coordinates were given as an INTEGER array gets truncated lengths / areas.

Cause: _GroupElem.Get_F_e_pg does `rebased_coord_e = coord_e.copy()` and then writes the coordinates
expressed in the element basis, `coord_e @ P_e` (floats), INTO that copy: when the coordinate array
has an integer dtype (GroupElemFactory.Create / Mesh built from np.array([[0,0,0],[1,1,0],...]),
or `mesh.coord = some_int_array`), the assignment casts back to int and truncates. Nothing converts
the coordinates to float anywhere (constructor and coord setter keep the dtype).
  - two segments (0,0)-(1,1)-(3,2): length 3.0 instead of sqrt(2)+sqrt(5) = 3.650
  - triangle (0,0,0),(1,0,1),(0,1,0): area 0.5 instead of sqrt(2)/2
The same meshes with float coordinates are exact; a 3D solid or an in-plane 2D mesh (dim == inDim)
with int coordinates is exact too, which makes it easy to miss.

exit 1 when the defect is present, 0 otherwise.
"""

import sys
import numpy as np
from EasyFEA import ElemType
from EasyFEA.FEM._group_elem import GroupElemFactory

bad = []

pts = [[0, 0, 0], [1, 1, 0], [3, 2, 0]]
exact = np.sqrt(2) + np.sqrt(5)
for dtype in (float, int):
    g = GroupElemFactory.Create(ElemType.SEG2, np.array([[0, 1], [1, 2]]), np.array(pts, dtype=dtype))
    print(f"SEG2 chain, coords dtype {np.dtype(dtype)}: length = {g.length} (exact {exact})")
    if abs(g.length - exact) > 1e-9:
        bad.append(f"SEG2 dtype {np.dtype(dtype)}: length {g.length} != {exact}")

pts = [[0, 0, 0], [1, 0, 1], [0, 1, 0]]
exact = np.sqrt(2) / 2
for dtype in (float, int):
    g = GroupElemFactory.Create(ElemType.TRI3, np.array([[0, 1, 2]]), np.array(pts, dtype=dtype))
    print(f"tilted TRI3, coords dtype {np.dtype(dtype)}: area = {g.area} (exact {exact})")
    if abs(g.area - exact) > 1e-9:
        bad.append(f"TRI3 dtype {np.dtype(dtype)}: area {g.area} != {exact}")

if bad:
    print("DEFECT present:")
    for b in bad:
        print("  -", b)
    sys.exit(1)
print("ok")
sys.exit(0)
