"""DEFECT (unchanged library) - C10, rotation of a frame whose member lines share their joint Point.

Line(pt1, pt2) keeps the Point objects it is given (AsPoint returns the very object), and
_Geom.Rotate / Translate / Symmetry move `self.points` in place. In a frame written with
shared joints,
    pA, pB, pC = Point(0, 0), Point(0, 3), Point(4, 3)
    line1, line2 = Line(pA, pB), Line(pB, pC)
rotating the structure member by member (`for beam in beams: beam.line.Rotate(theta)`,
the only way there is: beams have no Rotate of their own) moves the joint pB TWICE.
The fibre of member 1 is then turned by 2*theta about pA and member 2 is stretched
(length 5.51 instead of 4): the member axes (beam.xAxis = line.unitVector) no longer follow
the mesh, which was rotated once, and the rotated problem does not give the rotated solution.
The same frame written with coordinates tuples (separate Point objects) is correct.

exit 1 when the defect is present, 0 otherwise.
"""

import sys
import numpy as np
from EasyFEA import Mesher, ElemType, Models, Simulations
from EasyFEA.Geoms import Domain, Line, Point


def solve(theta, shared):
    a = np.deg2rad(theta)
    R = np.array([[np.cos(a), -np.sin(a)], [np.sin(a), np.cos(a)]])
    if shared:
        pA, pB, pC = Point(0, 0), Point(0, 3), Point(4, 3)
        line1, line2 = Line(pA, pB, 1.0), Line(pB, pC, 1.0)
    else:
        line1, line2 = Line((0, 0), (0, 3), 1.0), Line((0, 3), (4, 3), 1.0)
    sect = Mesher().Mesh_2D(Domain((0, 0), (0.1, 0.2)))
    beam1 = Models.Beam.Isotropic(2, line1, sect, 210e9, 0.3, yAxis=(-1, 0, 0))
    beam2 = Models.Beam.Isotropic(2, line2, sect.copy(), 210e9, 0.3, yAxis=(0, 1, 0))
    beams = [beam1, beam2]
    mesh = Mesher().Mesh_Beams(beams, ElemType.SEG2)
    c0 = mesh.coord.copy()
    # the whole structure is rotated: mesh, fibre lines, section axes
    if theta:
        mesh.Rotate(theta)
        for beam, y in zip(beams, [(-1, 0), (0, 1)]):
            beam.line.Rotate(theta)
            beam.yAxis = (*(R @ y), 0)
    simu = Simulations.Beam(mesh, Models.Beam.BeamStructure(beams))
    foot = np.where((c0[:, 0] == 0) & (c0[:, 1] == 0))[0]
    tip = np.where((c0[:, 0] == 4) & (c0[:, 1] == 3))[0]
    joint = np.where((c0[:, 0] == 0) & (c0[:, 1] == 3))[0]
    simu.add_dirichlet(foot, [0, 0, 0], ["x", "y", "rz"])
    simu.add_connection_fixed(joint)
    f = R @ [3000.0, -8000.0]
    simu.add_neumann(tip, [f[0], f[1]], ["x", "y"])
    u = simu.Solve().reshape(-1, 3).copy()
    u[:, :2] = u[:, :2] @ R
    return u, [b.line.length for b in beams]


status = 0
for shared in (False, True):
    u0, _ = solve(0.0, shared)
    u1, lengths = solve(30.0, shared)
    err = np.abs(u1 - u0).max() / np.abs(u0).max()
    print(f"joints shared between the lines: {shared!s:5s}  member lengths after the rotation {np.round(lengths, 4)}  relative difference of the solution {err:.3e}")
    if not err < 1e-6:
        status = 1
if status:
    print("DEFECT: a joint Point shared by two lines is moved once per line; the rotated frame does not give the rotated solution")
sys.exit(status)
