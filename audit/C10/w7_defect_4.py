"""DEFECT (unchanged library) - C10, translation: Simulations.Beam.center fails for a structure centred on the origin.

Beam.center ends with the self-check
    diff = norm(center - mesh.center) / norm(center);  assert diff < 1e-12
i.e. an error relative to the distance between the centre of mass and the ORIGIN of the
axes. For a structure whose centre of mass is the origin this is 0/0 = nan (or round-off /
round-off = O(1)) and the assertion fails; the same structure translated anywhere else
answers. A scalar/vector result of a problem must follow a translation of the problem, not
stop on it. (The same self-check also refuses any structure whose members have different
sections, since the centre of mass is then not the centroid of the mesh - not shown here.)

exit 1 when the defect is present, 0 otherwise.
"""

import sys
import warnings
import numpy as np
from EasyFEA import Mesher, ElemType, Models, Simulations
from EasyFEA.Geoms import Domain, Line

warnings.filterwarnings("ignore")


def center_of(shift):
    sect = Mesher().Mesh_2D(Domain((0, 0), (0.1, 0.2)))
    line = Line((-1 + shift[0], shift[1]), (1 + shift[0], shift[1]), 0.5)
    beam = Models.Beam.Isotropic(2, line, sect, 210e9, 0.3)
    mesh = Mesher().Mesh_Beams([beam], ElemType.SEG2)
    simu = Simulations.Beam(mesh, Models.Beam.BeamStructure([beam]))
    simu.rho = 7800.0
    return simu.center


c1 = center_of((0.3, 0.1))
print("beam from (-0.7, 0.1) to (1.3, 0.1): centre of mass", c1)
try:
    c0 = center_of((0.0, 0.0))
    print("beam from (-1, 0) to (1, 0): centre of mass", c0)
    ok = np.allclose(c1 - c0, [0.3, 0.1, 0.0], atol=1e-9)
except AssertionError:
    print("beam from (-1, 0) to (1, 0): simu.center raises AssertionError")
    ok = False
if not ok:
    print("DEFECT: the centre of mass of the translated structure is not the translated centre of mass (it cannot be computed at the origin)")
    sys.exit(1)
sys.exit(0)
