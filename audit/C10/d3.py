"""C10 / finding 3.

A 1D beam structure (Models.Beam.Isotropic(dim=1, ...): bars in tension / compression, single
unknown "x") that is translated off the x axis (y = 1 or z = 2, still parallel to x) reports the
axial force N, the strain ux' and the stress Sxx with the WRONG SIGN in every member whose line
points towards -x. On the x axis the same structure is right (fixed by 23df92c).

_EulerBernoulli._Get_axis_sign_e takes the direction of the element from the sign of the generic
Jacobian dx/dxi, which is only signed when the group lies on the x axis (inDim == 1). As soon as
a node has y != 0 or z != 0, _GroupElem.Get_F_e_pg works in the element's own frame, the Jacobian
is positive for every element, the sign is +1 and B = d/ds instead of d/dx.

Reference (closed form): bar clamped at one end, force F along +x at the other end:
   N = +F (tension) if the free end is the right end, -F (compression) if it is the left end,
   ux' = N / (E A), Sxx = N / A, the same in every element, whatever the y / z of the bar.
"""

import sys
import numpy as np

from EasyFEA import Models, Mesher, Simulations, ElemType
from EasyFEA.Geoms import Domain, Line, Point

E, v = 210000.0, 0.3
b, h = 10.0, 20.0
A = b * h
F = 1000.0


def section():
    return Domain((0, 0), (b, h), h / 4).Mesh_2D([], ElemType.QUAD4, isOrganised=True)


def run(lines, pClamp, pLoad, useTimoshenko, elemType):
    """lines: list of (start, end); members are rigidly connected where they meet."""
    beams = [
        Models.Beam.Isotropic(1, Line(Point(*pa), Point(*pb), 25.0), section(), E, v)
        for pa, pb in lines
    ]
    mesh = Mesher().Mesh_Beams(beams, elemType=elemType)
    simu = Simulations.Beam(mesh, Models.Beam.BeamStructure(beams), useTimoshenko=useTimoshenko)
    mesh = simu.mesh
    # junctions (each member has its own end node)
    seen = set()
    for pa, pb in lines:
        for p in (pa, pb):
            if p in seen:
                continue
            seen.add(p)
            nodes = mesh.Nodes_Point(Point(*p))
            for n in nodes[1:]:
                simu.add_connection_fixed([nodes[0], n])
    simu.add_dirichlet(mesh.Nodes_Point(Point(*pClamp))[:1], [0], ["x"])
    simu.add_neumann(mesh.Nodes_Point(Point(*pLoad))[:1], [F], ["x"])
    simu.Solve()
    N = np.asarray(simu.Result("N", nodeValues=False))
    eps = np.asarray(simu.Result("ux'", nodeValues=False))
    Sxx = np.asarray(simu.Result("Sxx", nodeValues=False))
    uLoad = simu.displacement[mesh.Nodes_Point(Point(*pLoad))[0]]
    return N, eps, Sxx, uLoad


defect = False


def check(label, lines, pClamp, pLoad, N_th):
    global defect
    for timo, et in [(False, ElemType.SEG2), (False, ElemType.SEG3), (True, ElemType.SEG3)]:
        N, eps, Sxx, uLoad = run(lines, pClamp, pLoad, timo, et)
        eN = np.abs(N - N_th).max() / abs(N_th)
        eE = np.abs(eps - N_th / (E * A)).max() / abs(N_th / (E * A))
        eS = np.abs(Sxx - N_th / A).max() / abs(N_th / A)
        eU = abs(uLoad - F * 100.0 / (E * A)) / (F * 100.0 / (E * A))
        bad = max(eN, eE, eS) > 1e-8
        kind = ("Timoshenko " if timo else "Euler-Bern. ") + str(et)
        print(
            f"  {label:58s} {kind:18s} N in [{N.min():8.1f}, {N.max():8.1f}] (exact {N_th:7.1f})  "
            f"Sxx in [{Sxx.min():6.2f}, {Sxx.max():6.2f}] (exact {N_th / A:5.2f})  u(load) err {eU:.0e}  {'WRONG' if bad else 'ok'}"
        )
        if bad and "on the x axis" not in label:
            defect = True
        if bad and "on the x axis" in label:
            print("     (unexpected: the reference configuration itself is wrong)")
            defect = True


print("bar of length 100, clamped at x = 100, force +F at x = 0 -> compression, N = -F")
for off, name in [((0, 0), "on the x axis"), ((1, 0), "translated to y = 1"), ((0, 2), "translated to z = 2"), ((-3, 5), "translated to y = -3, z = 5")]:
    y, z = off
    check(f"line (100,{y},{z}) -> (0,{y},{z}), {name}", [((100.0, y, z), (0.0, y, z))], (100.0, y, z), (0.0, y, z), -F)

print("\nsame bar described from left to right (member pointing towards +x): control")
for off, name in [((0, 0), "on the x axis"), ((1, 0), "translated to y = 1")]:
    y, z = off
    # clamped at x = 100, loaded at x = 0: still compression
    check(f"line (0,{y},{z}) -> (100,{y},{z}), {name}", [((0.0, y, z), (100.0, y, z))], (100.0, y, z), (0.0, y, z), -F)

print("\ntwo members (0 -> 60) and (100 -> 60), clamped at x = 0, force +F at x = 100 -> tension, N = +F everywhere")
for off, name in [((0, 0), "on the x axis"), ((1, 0), "translated to y = 1")]:
    y, z = off
    check(
        f"lines (0)->(60), (100)->(60), {name}",
        [((0.0, y, z), (60.0, y, z)), ((100.0, y, z), (60.0, y, z))],
        (0.0, y, z),
        (100.0, y, z),
        +F,
    )

if defect:
    print("\nDEFECT: translating a 1D bar structure off the x axis flips the sign of N, ux', Sxx in the members pointing towards -x.")
    sys.exit(1)
print("\nno defect")
sys.exit(0)
