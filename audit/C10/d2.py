"""C10 / finding 2.

The same rigid motion is applied, with the library's own functions and identical arguments,
to the mesh (Mesh.Rotate / Mesh.Symmetry) and to the geometric point that carries a load or a
support (Point.Rotate / Point.Symmetry). Mesh.Nodes_Point(moved point) then returns NO node for
many (angle, point) pairs, because the two code paths round differently in the last bit and

* the first test of _GroupElem.Get_Nodes_Point is an exact `==` on the three coordinates,
* its tolerance fallback is dead code: the target is shifted (x = point.x + |xmin| + 10) but is
  compared with the UNSHIFTED node coordinates, errorX = |(xn - x) / xn|, so a node lying exactly
  on the point has an "error" of (|xmin| + 10) / |xn| >> 1e-3 and is never accepted.

add_neumann / add_dirichlet silently ignore an empty node list, so the moved problem loses its
load: zero displacement instead of the rotated solution.

Reference: the node is looked up with plain numpy (closest node, distance ~1e-15), and the
original problem's solution is rotated.
"""

import sys
import numpy as np

from EasyFEA import Models, Mesher, Simulations, ElemType
from EasyFEA.Geoms import Domain, Point

L, H = 10.0, 4.0
mesh0 = Mesher().Mesh_2D(Domain((0, 0), (L, H), 1.0), [], ElemType.TRI3)
nLeft = mesh0.Nodes_Conditions(lambda x, y, z: x == 0)
corner = Point(L, H, 0)
F = np.array([30.0, -80.0, 0.0])


def rotz(deg):
    t = np.deg2rad(deg)
    return np.array([[np.cos(t), -np.sin(t), 0], [np.sin(t), np.cos(t), 0], [0, 0, 1]])


def solve(mesh, nodesLoad, Q):
    simu = Simulations.Elastic(mesh, Models.Elastic.Isotropic(2, 210000.0, 0.3))
    simu.add_dirichlet(nLeft, [0, 0], ["x", "y"])
    f = Q @ F
    simu.add_neumann(nodesLoad, [f[0], f[1]], ["x", "y"])
    simu.Solve()
    u = np.zeros((mesh.Nn, 3))
    u[:, :2] = simu.displacement.reshape(-1, 2)
    return u @ Q  # back in the original axes


defect = False

# ---------------------------------------------------------------- 1. the dead tolerance branch
n_exact = mesh0.Nodes_Point(corner)
n_close = mesh0.Nodes_Point(Point(L * (1 + 1e-15), H, 0))  # one ulp away from the node
print(f"original mesh: Nodes_Point((10, 4)) -> {n_exact},   Nodes_Point((10*(1+1e-15), 4)) -> {n_close}")
print("   (the fallback of Get_Nodes_Point announces a relative tolerance of 1e-3)")
if n_exact.size == 1 and n_close.size == 0:
    defect = True

# ---------------------------------------------------------------- 2. rotated / mirrored problem
u_ref = solve(mesh0, n_exact, np.eye(3))
print(f"\noriginal problem: corner load on node {n_exact}, max|u| = {np.abs(u_ref).max():.4e}")

center = (1.0, 2.0, 0.0)
lost = []
angles = [10, 20, 30, 37, 45, 60, 71.3, 90, 100, 123.4, 150, 180, 200, 270, 300]
for ang in angles:
    m = mesh0.copy()
    m.Rotate(ang, center, (0, 0, 1))
    p = corner.copy()
    p.Rotate(ang, center, (0, 0, 1))
    nodes = m.Nodes_Point(p)
    # independent look-up
    d = np.linalg.norm(m.coord - p.coord, axis=1)
    n_np = int(np.argmin(d))
    if nodes.size == 0:
        lost.append((ang, n_np, d[n_np]))

print(f"\nMesh.Rotate(a, {center}, z) + Point.Rotate(a, {center}, z) for a in {angles}:")
print(f"   Nodes_Point finds nothing for {len(lost)} of {len(angles)} angles:")
for ang, n_np, dist in lost:
    print(f"     a = {ang:6.1f} deg: closest node {n_np} lies at {dist:.1e} of the rotated point, Nodes_Point -> []")

if lost:
    ang = lost[0][0]
    m = mesh0.copy()
    m.Rotate(ang, center, (0, 0, 1))
    p = corner.copy()
    p.Rotate(ang, center, (0, 0, 1))
    Q = rotz(ang)
    u_lib = solve(m, m.Nodes_Point(p), Q)
    u_np = solve(m, np.array([lost[0][1]]), Q)
    e_lib = np.abs(u_lib - u_ref).max() / np.abs(u_ref).max()
    e_np = np.abs(u_np - u_ref).max() / np.abs(u_ref).max()
    print(f"\nrotated problem (a = {ang} deg), load applied on mesh.Nodes_Point(rotated point):")
    print(f"   max|u| = {np.abs(u_lib).max():.4e}   rel. error against the rotated original solution = {e_lib:.2e}")
    print(f"same, node found with numpy: rel. error = {e_np:.2e}")
    if e_lib > 1e-6 and e_np < 1e-9:
        defect = True

# mirror
m = mesh0.copy()
m.Symmetry((1.0, 1.0, 0.0), (1.0, -2.0, 0.0))
lostS = []
for pt in [Point(L, H, 0), Point(L, 0, 0), Point(0, H, 0), Point(0, 0, 0)]:
    p = pt.copy()
    p.Symmetry((1.0, 1.0, 0.0), (1.0, -2.0, 0.0))
    if m.Nodes_Point(p).size == 0:
        lostS.append(tuple(pt.coord))
print(f"\nMesh.Symmetry + Point.Symmetry (plane through (1,1,0), normal (1,-2,0)): corners not found: {lostS}")
if lostS:
    defect = True

if defect:
    print("\nDEFECT: the moved support / load point is not found, the condition is silently dropped.")
    sys.exit(1)
print("\nno defect")
sys.exit(0)
