"""C10 / finding 1.

A 2D (plane) elastic or hyperelastic problem that is flipped over with
Mesh.Rotate(180, direction = an in-plane axis) - a rigid motion that maps the (x, y) plane
onto itself - or rotated out of the plane and back (30 deg about x, then -30 deg about x),
is solved silently wrong (errors of ~90 %).

The rotated nodes get z = O(1e-16) instead of 0 (sin(pi) = 1.2e-16). _GroupElem.inDim decides
"3D" on `np.max(z) > 0`, so _GroupElem.Get_F_e_pg switches to the per-element local frames
(branch `dim != inDim`): the shape-function gradients are then expressed in a different frame
for every element, but Elastic / HyperElastic use them as d/dx, d/dy. Mesh.inDim is cached at
construction (still 2), so _Simu._Check_dim_mesh_material accepts the mesh.

Reference 1: the original problem (same mesh, same node numbering), solution rotated back.
Reference 2: closed form of a uniaxial tension patch test, u_x(L) = sigma L / E, u_y(H) = -nu sigma H / E.
"""

import sys
import numpy as np

from EasyFEA import Models, Mesher, Simulations, ElemType
from EasyFEA.Geoms import Domain

L, H = 10.0, 4.0
E, v = 210000.0, 0.3
TOL = 1e-6


def rotmat(axis, deg):
    a = np.asarray(axis, float)
    a = a / np.linalg.norm(a)
    t = np.deg2rad(deg)
    K = np.array([[0, -a[2], a[1]], [a[2], 0, -a[0]], [-a[1], a[0], 0]])
    return np.eye(3) + np.sin(t) * K + (1 - np.cos(t)) * K @ K


mesh0 = Mesher().Mesh_2D(Domain((0, 0), (L, H), 1.0), [], ElemType.TRI3)
# node sets taken on the original mesh: Mesh.Rotate keeps the numbering
nLeft = mesh0.Nodes_Conditions(lambda x, y, z: x == 0)
nRight = mesh0.Nodes_Conditions(lambda x, y, z: x == L)
nOrigin = mesh0.Nodes_Conditions(lambda x, y, z: (x == 0) & (y == 0))
nTop = mesh0.Nodes_Conditions(lambda x, y, z: (x == L) & (y == H))


def solve_cantilever(mesh, Q, kind):
    """clamped on the left edge, traction Q f on the right edge; returns the displacement
    brought back to the original axes (Q^T u) and the von Mises stress per element."""
    if kind == "Elastic":
        simu = Simulations.Elastic(mesh, Models.Elastic.Isotropic(2, E, v, planeStress=True))
        f = np.array([3.0, -10.0, 0.0])
    else:
        mat = Models.HyperElastic.SaintVenantKirchhoff(2, 121.0, 80.0)
        simu = Simulations.HyperElastic(mesh, mat)
        f = np.array([0.03, -0.1, 0.0])
    f = Q @ f
    simu.add_dirichlet(nLeft, [0, 0], ["x", "y"])
    simu.add_surfLoad(nRight, [f[0], f[1]], ["x", "y"])
    simu.Solve()
    u = np.zeros((mesh.Nn, 3))
    u[:, :2] = simu.displacement.reshape(-1, 2)
    return u @ Q, np.asarray(simu.Result("Svm", nodeValues=False))


def solve_patch(mesh, Q):
    """uniaxial tension sigma along the (moved) x axis. Q is diagonal here, so that the
    component-wise supports u_x = 0 (left edge) and u_y = 0 (one node) move with the problem."""
    sigma = 100.0
    simu = Simulations.Elastic(mesh, Models.Elastic.Isotropic(2, E, v, planeStress=True))
    simu.add_dirichlet(nLeft, [0], ["x"])
    simu.add_dirichlet(nOrigin, [0], ["y"])
    f = Q @ np.array([sigma, 0.0, 0.0])
    simu.add_surfLoad(nRight, [f[0], f[1]], ["x", "y"])
    simu.Solve()
    u = np.zeros((mesh.Nn, 3))
    u[:, :2] = simu.displacement.reshape(-1, 2)
    u = u @ Q
    return u[nTop[0], 0], u[nTop[0], 1], sigma * L / E, -v * sigma * H / E


def moved(name):
    m = mesh0.copy()
    if name == "flip 180 deg about x":
        m.Rotate(180, (0, 0, 0), (1, 0, 0))
        Q = np.diag([1.0, -1.0, -1.0])
    elif name == "flip 180 deg about y":
        m.Rotate(180, (0, 0, 0), (0, 1, 0))
        Q = np.diag([-1.0, 1.0, -1.0])
    elif name == "flip 180 deg about the in-plane axis (cos 0.3, sin 0.3, 0)":
        axis = (np.cos(0.3), np.sin(0.3), 0.0)
        m.Rotate(180, (0, 0, 0), axis)
        Q = rotmat(axis, 180)
    elif name == "30 deg about x, then -30 deg about x (identity)":
        m.Rotate(30, (0, 0, 0), (1, 0, 0))
        m.Rotate(-30, (0, 0, 0), (1, 0, 0))
        Q = np.eye(3)
    elif name == "control: in-plane rotation of 37 deg about z":
        m.Rotate(37, (1, 2, 0), (0, 0, 1))
        Q = rotmat((0, 0, 1), 37)
    elif name == "control: in-plane mirror y -> -y (Mesh.Symmetry)":
        m.Symmetry((0, 0, 0), (0, 1, 0))
        Q = np.diag([1.0, -1.0, 1.0])
    return m, Q


defect = False
names = [
    "control: in-plane rotation of 37 deg about z",
    "control: in-plane mirror y -> -y (Mesh.Symmetry)",
    "flip 180 deg about x",
    "flip 180 deg about y",
    "flip 180 deg about the in-plane axis (cos 0.3, sin 0.3, 0)",
    "30 deg about x, then -30 deg about x (identity)",
]

for kind in ["Elastic", "HyperElastic"]:
    u_ref, s_ref = solve_cantilever(mesh0, np.eye(3), kind)
    print(f"\n{kind}: cantilever, clamped left edge, traction on the right edge")
    for name in names:
        m, Q = moved(name)
        zmax = np.abs(m.coord[:, 2]).max()
        u, s = solve_cantilever(m, Q, kind)
        eu = np.abs(u - u_ref).max() / np.abs(u_ref).max()
        es = np.abs(s - s_ref).max() / np.abs(s_ref).max()
        bad = max(eu, es) > TOL
        if bad and not name.startswith("control"):
            defect = True
        print(
            f"  {name:62s} max|z| = {zmax:.1e}  Mesh.inDim = {m.inDim}  groupElem.inDim = {m.groupElem.inDim}"
            f"  rel. err u = {eu:.1e}  Svm = {es:.1e}  {'WRONG' if bad else 'ok'}"
        )

print("\nElastic: uniaxial tension patch test against the closed form")
for name in ["control: in-plane mirror y -> -y (Mesh.Symmetry)", "flip 180 deg about x", "flip 180 deg about y"]:
    m, Q = moved(name)
    ux, uy, ux_th, uy_th = solve_patch(m, Q)
    e = max(abs(ux - ux_th) / abs(ux_th), abs(uy - uy_th) / abs(uy_th))
    bad = e > TOL
    if bad and not name.startswith("control"):
        defect = True
    print(
        f"  {name:50s} u_x(L,H) = {ux:.6e} (exact {ux_th:.6e})  u_y(L,H) = {uy:.6e} (exact {uy_th:.6e})  {'WRONG' if bad else 'ok'}"
    )

if defect:
    print("\nDEFECT: a plane problem moved by a rigid motion that keeps it in the (x, y) plane is solved wrong.")
    sys.exit(1)
print("\nno defect")
sys.exit(0)
