"""DEFECT (unchanged library) - C10, reflection: a pressure load on a mirrored mesh acts the other way.

Mesh.Symmetry mirrors the node coordinates and keeps the connectivity, so every element
(and every boundary element) is turned inside out. add_pressureLoad takes the direction of
the load from Mesh.Get_normals -> _GroupElem.Get_normals_e_pg, i.e. from the orientation of
the boundary elements (cross((0,0,1), tangent) in 2D, cross of the two tangents in 3D): on
the mirrored mesh these "outward" normals point inwards. The mirrored problem (same
constraint on the mirrored edge, same pressure on the mirrored edge) therefore gives MINUS
the mirrored solution: the plate that was compressed by the pressure is now stretched.
Frame indifference for reflections is violated (relative difference 2.0).

exit 1 when the defect is present, 0 otherwise.
"""

import sys
import numpy as np
from EasyFEA import Mesher, ElemType, Models, Simulations
from EasyFEA.Geoms import Domain


def solve(mirror: bool):
    mesh = Mesher().Mesh_2D(Domain((0, 0), (2, 1), 0.25), [], ElemType.TRI3)
    s = 1.0
    if mirror:
        mesh.Symmetry((0, 0, 0), (1, 0, 0))  # x -> -x
        s = -1.0
    simu = Simulations.Elastic(mesh, Models.Elastic.Isotropic(2, 210000, 0.3, planeStress=True, thickness=1))
    x = mesh.coord[:, 0]
    simu.add_dirichlet(np.where(np.abs(x) < 1e-9)[0], [0, 0], ["x", "y"])
    simu.add_pressureLoad(np.where(np.abs(x - s * 2) < 1e-9)[0], 100.0)
    u = simu.Solve().reshape(-1, 2).copy()
    u[:, 0] *= s  # mirrored back
    return u


u0 = solve(False)
u1 = solve(True)
err = np.abs(u1 - u0).max() / np.abs(u0).max()
print(f"ux at the loaded edge: original {u0[:, 0].min():+.3e} (pushed in), mirrored problem, mirrored back {u1[:, 0].max():+.3e}")
print(f"relative difference between the mirrored solution and the solution of the mirrored problem: {err:.3e}")
if not err < 1e-6:
    print("DEFECT: the pressure load of the mirrored problem acts in the opposite direction")
    sys.exit(1)
sys.exit(0)
