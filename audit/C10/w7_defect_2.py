"""DEFECT (unchanged library) - C10, rotation: Mesh.Nodes_Point loses its node after a rigid rotation.

_GroupElem.Get_Nodes_Point first compares the coordinates with `==`. Its fallback for
"the previous condition may be too restrictive" shifts the POINT by |min(coord)| + 10 but
not the nodes (errorX = |(xn - (x + decX)) / xn|), so it looks for nodes 10 units away
from the point and finds none (and divides by zero on z = 0).
When a problem is rotated as a whole - mesh.Rotate(theta, c) and point.Rotate(theta, c),
both through Geoms.Rotate - the rotated corner node and the rotated corner point differ by
one or two ulp (4e-16 .. 2e-15) for most angles, the exact test fails, the fallback finds
nothing, and the point load selected with mesh.Nodes_Point(corner) silently vanishes:
the rotated problem has no load and a zero solution instead of the rotated solution.

exit 1 when the defect is present, 0 otherwise.
"""

import sys
import warnings
import numpy as np
from EasyFEA import Mesher, ElemType, Models, Simulations
from EasyFEA.Geoms import Domain, Point

warnings.filterwarnings("ignore")

center = (1.0, 2.0, 0.0)


def solve(theta):
    mesh = Mesher().Mesh_2D(Domain((0, 0), (20, 10), 1.0), [], ElemType.TRI3)
    x0 = mesh.coord[:, 0].copy()
    corner = Point(20, 0)
    if theta:
        mesh.Rotate(theta, center)
        corner.Rotate(theta, center)
    a = np.deg2rad(theta)
    R = np.array([[np.cos(a), -np.sin(a)], [np.sin(a), np.cos(a)]])
    simu = Simulations.Elastic(mesh, Models.Elastic.Isotropic(2, 210000, 0.3, planeStress=True, thickness=1))
    simu.add_dirichlet(np.where(x0 == 0)[0], [0, 0], ["x", "y"])
    nodes = mesh.Nodes_Point(corner)
    f = R @ [0.0, -100.0]
    simu.add_neumann(nodes, [f[0], f[1]], ["x", "y"])
    u = simu.Solve().reshape(-1, 2)
    return nodes, u @ R


n0, u0 = solve(0.0)
bad = []
for theta in (10.0, 33.0, 47.3, 90.0, 123.4):
    n1, u1 = solve(theta)
    err = np.abs(u1 - u0).max() / np.abs(u0).max()
    print(f"theta = {theta:6.1f}: nodes at the corner {n1} (expected {n0}), relative difference of the solution {err:.3e}")
    if not err < 1e-6:
        bad.append(theta)
if bad:
    print(f"DEFECT: for theta in {bad} the corner node is not found after the rotation, the load is lost")
    sys.exit(1)
sys.exit(0)
