"""C02 / finding 1 - beam members with "large" coordinates silently lose the stiffness and the mass of some elements.

A single straight Euler-Bernoulli / Timoshenko member is meshed with the documented entry point
Mesher.Mesh_Beams (default element type SEG3) and given to Simulations.Beam. The model is written in
millimetres: a rafter going from (0, 0, 0) to (8000, 6000, 3000) and a 45 degree brace from (0, 0) to
(12000, 12000), steel, rectangular section 100 x 200.

The property promises, for a connected beam mesh:
  * K symmetric PSD whose zero-energy modes are exactly the rigid-body motions (6 in 3D, 3 in 2D);
  * M symmetric PSD with the translational mass rho * A * L in every direction;
  * the structure is uniquely solvable as soon as the rigid-body modes are restrained (clamped end).

Independent references: null space dimension by dense eigen-decomposition, rho*A*L, and the closed-form tip
deflection of a cantilever F L^3 / (3 E I) (+ F L / (k G A) for Timoshenko).

exit code 1 when the defect manifests, 0 otherwise.
"""

import sys
import warnings

import numpy as np

from EasyFEA import Models, Simulations, ElemType, Mesher
from EasyFEA.Geoms import Domain, Point, Line

b, h = 100.0, 200.0  # mm
E, v, rho = 210000.0, 0.3, 7.8e-9  # MPa, -, t/mm3
A = b * h


def section():
    return Mesher().Mesh_2D(
        Domain(Point(-b / 2, -h / 2), Point(b / 2, h / 2), h / 4), [], ElemType.TRI6
    )


def run(dim, p2, useTimoshenko):
    line = Line(Point(0, 0, 0), Point(*p2), 1000.0)
    beam = Models.Beam.Isotropic(dim, line, section(), E, v)
    mesh = Mesher().Mesh_Beams([beam])  # default elemType (SEG3)
    simu = Simulations.Beam(
        mesh, Models.Beam.BeamStructure([beam]), useTimoshenko=useTimoshenko
    )
    simu.rho = rho
    mesh = simu.mesh
    dof_n = simu.Get_dof_n()
    L = line.length

    K, _, M, _ = simu.Get_K_C_M_F()
    K = K.toarray()
    M = M.toarray()

    # --- kernel of K (dense eigen-decomposition)
    # (translations and rotations do not have the same unit: the matrix is scaled by its diagonal
    #  before the eigenvalues are compared with zero; dofs without any stiffness are counted apart)
    zero = np.abs(K).sum(axis=1) == 0
    zeroRows = int(zero.sum())
    d = np.sqrt(np.diag(K)[~zero])
    Ks = K[np.ix_(~zero, ~zero)] / np.outer(d, d)
    w = np.linalg.eigvalsh((Ks + Ks.T) / 2)
    assert w.min() > -1e-10
    nzero = int((np.abs(w) < 1e-10).sum()) + zeroRows
    nRigid = {2: 3, 3: 6}[dim]

    # --- translational mass
    transl = []
    for d in range(dim):
        t = np.zeros(mesh.Nn * dof_n)
        t[d::dof_n] = 1.0
        transl.append(t @ M @ t)
    transl = np.array(transl)
    massRef = rho * A * L

    # --- elements that really carry the beam's tag
    Ne = mesh.Ne
    Ntagged = len(mesh.groupElem.Get_Elements_Tag(beam.name))

    # --- cantilever, tip load along the section's y axis
    yAxis = beam.yAxis
    F = -1000.0
    simu.add_dirichlet(
        mesh.Nodes_Point(Point(0, 0, 0)), [0] * dof_n, simu.Get_unknowns()
    )
    unknowns = ["x", "y", "z"][:dim]
    simu.add_neumann(
        mesh.Nodes_Point(Point(*p2)), [F * yAxis[d] for d in range(dim)], unknowns
    )
    with warnings.catch_warnings(record=True) as caught:
        warnings.simplefilter("always")
        u = simu.Solve()
    tipNode = mesh.Nodes_Point(Point(*p2))[0]
    tip = sum(u[tipNode * dof_n + d] * yAxis[d] for d in range(dim))
    Iz = b * h**3 / 12
    tipRef = F * L**3 / (3 * E * Iz)
    if useTimoshenko:
        tipRef += F * L / (beam._ky * beam.mu * A)

    print(
        f"dim={dim} end={p2} Timoshenko={useTimoshenko}: Ne={Ne}, elements carrying the beam tag={Ntagged}"
    )
    print(
        f"   zero eigenvalues of K = {nzero} (rigid-body motions: {nRigid}), all-zero rows of K = {zeroRows}"
    )
    print(
        f"   translational mass / (rho A L) = {transl / massRef},  simu.mass / (rho A L) = {simu.mass / massRef:.6f}"
    )
    print(
        f"   clamped cantilever: tip deflection = {tip}, closed form = {tipRef:.6g}; solver warnings = {[str(c.message) for c in caught]}"
    )

    bad = (
        nzero != nRigid
        or np.any(np.abs(transl / massRef - 1) > 1e-8)
        or not np.isfinite(tip)
        or abs(tip / tipRef - 1) > 1e-2
    )
    return bad


if __name__ == "__main__":
    bad = False
    for dim, p2 in [(3, (8000.0, 6000.0, 3000.0)), (2, (12000.0, 12000.0, 0.0))]:
        for timo in (False, True):
            bad |= bool(run(dim, p2, timo))
    if bad:
        print(
            "\nDEFECT: some elements of a straight, connected member have neither stiffness nor mass"
        )
        sys.exit(1)
    print("\nno defect observed")
    sys.exit(0)
