"""Defect of the UNCHANGED library (property C02, beams in 2D / 3D).

A beam member is described twice: by the Line of its model (Models.Beam.Isotropic(dim, line, ...),
whose direction gives the member axis x' and the projection matrix P) and by the segments of
the mesh. The Hermitian (Euler-Bernoulli) and the shear (Timoshenko) interpolations are written
along the direction node 0 -> node 1 of every *element*, the rotation unknown rz is interpreted
in the axes of the *line*. Nothing ties the two together: when the elements of the mesh run
against the line (here the mesh is made from Line(p2, p1) and the model from Line(p1, p2), the
same segment; the same happens with an imported / hand-made / partly renumbered mesh) the
slope v' seen by the element is the opposite of rz and

  * the rigid rotation of the member (ux, uy, rz) = (-y, x, 1) is no longer a zero-energy mode
    of K: the third zero mode of K is (-y, x, -1), i.e. the nodes turn one way and the
    rotation unknown the other way (with only some elements of a member reversed the third
    zero mode is a zig-zag, a real mechanism),
  * the rotation unknown has the opposite sign: the clamped member under a tip force reports
    rz = - F L^2 / (2 E I) at its tip, and a tip moment +Mz bends it the wrong way
    (v = - M L^2 / (2 E I)); when only some elements of a member are reversed (hand-made or
    renumbered mesh) the deflections themselves are wrong.

For a 1D structure (dim = 1) the library does handle elements pointing against the axis
(_EulerBernoulli._Get_axis_sign_e), so reversed elements are an accepted input.

exit 1 when the defect is present, 0 otherwise.
"""

import sys
import numpy as np

from EasyFEA import Models, Simulations, Mesher, ElemType
from EasyFEA.Geoms import Domain, Point, Line

E, NU = 210e9, 0.3
p1, p2 = Point(0, 0), Point(4, 3)
L = 5.0
bad = []

for useTimoshenko in [False, True]:
    for elemType in [ElemType.SEG2, ElemType.SEG3]:
        mesher = Mesher()
        section = mesher.Mesh_2D(Domain(Point(-0.01, -0.02), Point(0.01, 0.02)))
        beam = Models.Beam.Isotropic(2, Line(p1, p2, L / 8), section, E, NU)
        # same segment, meshed from the other end
        mesh = mesher.Mesh_1D([Line(p2, p1, L / 8)], elemType)
        mesh.groupElem.Set_Tag(mesh.Nodes_Line(beam.line), beam.name)
        assert mesh.Elements_Tags(beam.name).size == mesh.Ne

        simu = Simulations.Beam(mesh, Models.Beam.BeamStructure([beam]), useTimoshenko=useTimoshenko)
        K = simu.Get_K_C_M_F()[0].toarray()
        x, y, _ = simu.mesh.coord.T
        rot = np.zeros(K.shape[0])
        rot[0::3], rot[1::3], rot[2::3] = -y, x, 1
        res = np.abs(K @ rot).max() / (np.abs(K).max() * np.abs(rot).max())

        n = np.array([-3, 4]) / 5  # unit vector perpendicular to the member (its local y axis)
        tip = simu.mesh.Nodes_Point(p2)
        EI = E * beam.Iz

        # (a) tip force F along the local y axis: v = F L^3 / 3EI (+ shear), rz = + F L^2 / 2EI
        F = 1000.0
        simu.add_dirichlet(simu.mesh.Nodes_Point(p1), [0, 0, 0], ["x", "y", "rz"])
        simu.add_neumann(tip, [F * n[0], F * n[1]], ["x", "y"])
        u = simu.Solve().reshape(-1, 3)
        rzF = u[tip[0], 2] / (F * L**2 / (2 * EI))

        # (b) tip moment M about z: v = + M L^2 / 2EI along the local y axis
        simu.Bc_Init()
        Mz = 1000.0
        simu.add_dirichlet(simu.mesh.Nodes_Point(p1), [0, 0, 0], ["x", "y", "rz"])
        simu.add_neumann(tip, [Mz], ["rz"])
        u = simu.Solve().reshape(-1, 3)
        vM = (u[tip[0], :2] @ n) / (Mz * L**2 / (2 * EI))

        print(
            f"Timoshenko={useTimoshenko} {elemType}: |K rot|/|K| = {res:.2e}, "
            f"tip rotation under a tip force / exact = {rzF:+.4f}, tip deflection under a tip moment / exact = {vM:+.4f}"
        )
        tol = 1e-6 if not (useTimoshenko and elemType == ElemType.SEG2) else 5e-2
        if res > 1e-9 or abs(rzF - 1) > tol or abs(vM - 1) > tol:
            bad.append((useTimoshenko, str(elemType)))

if bad:
    print("DEFECT PRESENT: rigid rotation not in the kernel of K, reversed rotation unknown for", bad)
    sys.exit(1)
print("no defect")
sys.exit(0)
