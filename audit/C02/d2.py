"""C02 / finding 2 - 1D heat conduction on curved (quadratic / cubic / quartic) segments: the capacity matrix
does not carry rho * c * length and the conductivity matrix is the one of the chords.

A quarter of a circle of radius 1 is meshed with Mesher.Mesh_1D (CircleArc geom, 4 elements) with SEG2, SEG3,
SEG4 and SEG5 and given to Simulations.Thermal. For a segment embedded in 2D / 3D the jacobian has to be
|dx/dxi| (the length of the tangent vector of the isoparametric map). _GroupElem.Get_F_e_pg projects the
nodes on the chord of every element instead, which is only right for straight elements.

Independent reference (straightforward numpy): the element matrices
    C_e = rho c * int N^T N |dx/dxi| dxi ,   K_e = k * int dN^T dN / |dx/dxi| dxi
integrated with 20 Gauss points on the isoparametric curve defined by the mesh nodes and the Lagrange shape
functions written in this script; and the exact length pi R / 2.

exit code 1 when the defect manifests, 0 otherwise.
"""

import sys

import numpy as np
from numpy.polynomial.legendre import leggauss
from numpy.polynomial import polynomial as P

from EasyFEA import Models, Simulations, ElemType, Mesher
from EasyFEA.Geoms import Point, CircleArc

R = 1.0
k, c, rho = 2.0, 3.0, 1.5


def lagrange_basis(xi_nodes):
    """Lagrange polynomials (coefficients, increasing degree) on the given reference nodes."""
    basis = []
    for i, xi in enumerate(xi_nodes):
        p = np.array([1.0])
        for j, xj in enumerate(xi_nodes):
            if i != j:
                p = P.polymul(p, np.array([-xj, 1.0]) / (xi - xj))
        basis.append(p)
    return basis


def reference(mesh):
    """Assembled C and K on the isoparametric curve (gmsh node order: the 2 ends, then the inner nodes)."""
    g = mesh.groupElem
    nPe = g.nPe
    xi_nodes = np.array([-1.0, 1.0] + list(np.linspace(-1, 1, nPe)[1:-1]))
    basis = lagrange_basis(xi_nodes)
    dbasis = [P.polyder(p) for p in basis]
    x, w = leggauss(20)
    N = np.array([P.polyval(x, p) for p in basis]).T  # (nPg, nPe)
    dN = np.array([P.polyval(x, p) for p in dbasis]).T
    Nn = mesh.Nn
    C = np.zeros((Nn, Nn))
    K = np.zeros((Nn, Nn))
    length = 0.0
    coord = mesh.coord
    for conn in g.connect:
        Xe = coord[conn]  # (nPe, 3)
        J = np.linalg.norm(dN @ Xe, axis=1)  # |dx/dxi| at the Gauss points
        length += w @ J
        Ce = rho * c * np.einsum("p,pi,pj->ij", w * J, N, N)
        Ke = k * np.einsum("p,pi,pj->ij", w / J, dN, dN)
        C[np.ix_(conn, conn)] += Ce
        K[np.ix_(conn, conn)] += Ke
    return C, K, length


if __name__ == "__main__":
    bad = False
    exact = np.pi * R / 2
    for elemType in ElemType.Get_1D():
        arc = CircleArc(Point(R, 0), Point(0, R), center=Point(0, 0), meshSize=0.5)
        mesh = Mesher().Mesh_1D(arc, elemType)
        simu = Simulations.Thermal(mesh, Models.Thermal(k=k, c=c))
        simu.rho = rho
        K, C, _, _ = simu.Get_K_C_M_F()
        K = K.toarray()
        C = C.toarray()

        Cref, Kref, length = reference(mesh)

        # the nodes are on the circle: check, and temperature = curvilinear abscissa
        assert np.allclose(np.linalg.norm(mesh.coord, axis=1), R, atol=1e-12)
        s = R * np.arctan2(mesh.coord[:, 1], mesh.coord[:, 0])

        errC = abs(C.sum() - Cref.sum()) / Cref.sum()
        errK = np.abs(K - Kref).max() / np.abs(Kref).max()
        print(
            f"{elemType.value}: Ne={mesh.Ne}  sum(C)/(rho c) = {C.sum() / (rho * c):.8f} | length of the meshed curve = {length:.8f}"
            f" | exact pi R/2 = {exact:.8f} | mesh.length = {mesh.length:.8f}"
        )
        print(
            f"      s^T K s / k = {s @ K @ s / k:.8f} (reference {s @ Kref @ s / k:.8f}, exact {exact:.8f});"
            f"  max|K - Kref|/max|Kref| = {errK:.2e}, max|C - Cref|/max|Cref| = {np.abs(C - Cref).max() / np.abs(Cref).max():.2e}"
        )
        # criteria that do not depend on the number of Gauss points of the library (the integrand of K is
        # not polynomial on a curved element): total capacity and energy of T = curvilinear abscissa
        errE = abs(s @ K @ s - s @ Kref @ s) / (s @ Kref @ s)
        if errC > 1e-4 or errE > 1e-3:
            bad = True

    if bad:
        print(
            "\nDEFECT: on curved segments the capacity matrix does not sum to rho c x length (and K is the chord's one):"
            "\n        SEG3/SEG4/SEG5 give the numbers of the SEG2 polygon whatever their order"
        )
        sys.exit(1)
    print("\nno defect observed")
    sys.exit(0)
