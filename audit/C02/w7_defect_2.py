"""Defect of the UNCHANGED library (property C02: the capacity / mass matrix carries
density x measure, K has the right scale).

A mesh built from a coordinate array of INTEGER dtype (hand-made meshes: np.array([[0, 0, 0],
[1, 1, 0], ...]); GroupElemFactory.Create / Mesh accept it, nothing converts it) is kept with
that dtype by _GroupElem. For elements of lower dimension than the space they lie in (segments
in the plane or in space: 1D heat conduction, beams; plane elements in space)
_GroupElem.Get_F_e_pg writes the coordinates expressed in the axes of each element into a
*copy of the integer array* (rebased_coord_e = coord_e.copy(); rebased_coord_e[...] = coord_e @ P_e),
so they are truncated to integers. Element lengths / areas, hence K, the capacity matrix and
mesh.length are silently wrong (here 4.0 instead of 3 sqrt(2) = 4.2426 for three segments
(0,0)-(1,1)-(2,2)-(3,3)). The same nodes given as floats are handled correctly.

exit 1 when the defect is present, 0 otherwise.
"""

import sys
import numpy as np

from EasyFEA import Models, Simulations, ElemType, Mesh
from EasyFEA.FEM import GroupElemFactory

out = {}
for dtype in (float, int):
    coords = np.array([[0, 0, 0], [1, 1, 0], [2, 2, 0], [3, 3, 0]], dtype=dtype)
    connect = np.array([[0, 1], [1, 2], [2, 3]])
    mesh = Mesh({ElemType.SEG2: GroupElemFactory.Create(ElemType.SEG2, connect, coords)})
    simu = Simulations.Thermal(mesh, Models.Thermal(k=1.0, c=1.0))
    simu.rho = 1.0
    K, C, M, F = simu.Get_K_C_M_F()
    out[dtype] = (mesh.length, C.sum(), K.toarray()[0, 0])
    print(dtype.__name__, "length", mesh.length, "sum(C)", C.sum(), "K[0,0]", K.toarray()[0, 0])

exact = 3 * np.sqrt(2)
ok = all(abs(out[d][1] - exact) < 1e-9 and abs(out[d][2] - 1 / np.sqrt(2)) < 1e-9 for d in out)
if not ok:
    print(f"DEFECT PRESENT: rho c L = {exact:.6f}, k / l = {1 / np.sqrt(2):.6f} expected for both dtypes")
    sys.exit(1)
print("no defect")
sys.exit(0)
