"""C02 / finding 3 - integer-typed node coordinates are silently truncated for every element group embedded in
a space of higher dimension (segments in 2D / 3D, plane elements in 3D): lengths / areas, hence the
conductivity and capacity matrices of 1D / shell-like heat conduction (and beams), are wrong.

A mesh is written by hand with the public constructors (GroupElemFactory.Create + Mesh): the node coordinates
are given as a plain numpy array of integers, e.g. np.array([[0, 0, 0], [1, 1, 0], ...]) - numpy makes it an
int64 array. The same mesh given as floats is right. The same integer array assigned with `mesh.coord = ...`
on a mesh created by gmsh goes wrong too.

Independent reference: closed form lengths / areas; rho c * measure * (thickness); k * length for the energy of
T = curvilinear abscissa.

exit code 1 when the defect manifests, 0 otherwise.
"""

import sys

import numpy as np

from EasyFEA import Models, Simulations, ElemType, Mesh, Mesher
from EasyFEA.FEM import GroupElemFactory
from EasyFEA.Geoms import Domain, Point

k, c, rho, thickness = 2.0, 3.0, 1.5, 0.5
bad = False


def report(tag, got, ref):
    global bad
    err = abs(got - ref) / abs(ref)
    flag = err > 1e-9
    bad |= flag
    print(f"   {tag}: {got:.10g}   reference {ref:.10g}   {'<-- WRONG' if flag else 'ok'}")


# ---------------------------------------------------------------------------------
# 1) polyline of SEG2 in the plane (1D heat conduction)
# ---------------------------------------------------------------------------------
coordinates = np.array([[0, 0, 0], [1, 1, 0], [2, 3, 0], [4, 4, 0]])  # int64
connect = np.array([[0, 1], [1, 2], [2, 3]])
lengths = np.linalg.norm(np.diff(coordinates.astype(float), axis=0), axis=1)
s = np.concatenate([[0.0], np.cumsum(lengths)])  # curvilinear abscissa of the nodes

for coord in (coordinates, coordinates.astype(float)):
    groupElem = GroupElemFactory.Create(ElemType.SEG2, connect, coord)
    mesh = Mesh({ElemType.SEG2: groupElem})
    simu = Simulations.Thermal(mesh, Models.Thermal(k=k, c=c))
    simu.rho = rho
    K, C, _, _ = simu.Get_K_C_M_F()
    print(f"SEG2 polyline, coordinates dtype = {coord.dtype}")
    report("sum of the capacity matrix", C.sum(), rho * c * lengths.sum())
    report("energy s^T K s            ", s @ (K @ s), k * lengths.sum())
    report("mesh.length               ", mesh.length, lengths.sum())

# ---------------------------------------------------------------------------------
# 2) two TRI3 in an inclined plane of the 3D space (heat conduction in a plate)
# ---------------------------------------------------------------------------------
coordinates = np.array([[0, 0, 0], [2, 0, 1], [2, 3, 1], [0, 3, 0]])  # int64
connect = np.array([[0, 1, 2], [0, 2, 3]])
area = np.sqrt(5.0) * 3.0
for coord in (coordinates, coordinates.astype(float)):
    groupElem = GroupElemFactory.Create(ElemType.TRI3, connect, coord)
    mesh = Mesh({ElemType.TRI3: groupElem})
    simu = Simulations.Thermal(mesh, Models.Thermal(k=k, c=c, thickness=thickness))
    simu.rho = rho
    K, C, _, _ = simu.Get_K_C_M_F()
    # T = distance along the inclined side (unit gradient): energy = k * area * thickness
    T = coord.astype(float) @ (np.array([2.0, 0.0, 1.0]) / np.sqrt(5.0))
    print(f"TRI3 plate in 3D, coordinates dtype = {coord.dtype}")
    report("sum of the capacity matrix", C.sum(), rho * c * area * thickness)
    report("energy T^T K T            ", T @ (K @ T), k * area * thickness)

# ---------------------------------------------------------------------------------
# 3) gmsh mesh whose coordinates are re-assigned (setter of Mesh.coord) as integers
# ---------------------------------------------------------------------------------
mesh = Mesher().Mesh_2D(
    Domain(Point(0, 0), Point(4, 2), 1.0), [], ElemType.QUAD4, isOrganised=True
)
simu = Simulations.Thermal(mesh, Models.Thermal(k=k, c=c, thickness=thickness))
simu.rho = rho
mesh.coord = np.rint(mesh.coord * 1000).astype(int)  # millimetres, integers (plate in z = 0: no projection, control)
mesh.Rotate(30, direction=(0, 1, 0))  # inclined plate (floats again), control
_, C_float, _, _ = simu.Get_K_C_M_F()
print("QUAD4 plate 4 x 2 converted to integer millimetres with `mesh.coord = ...` (then rotated: floats)")
report("sum of the capacity matrix", C_float.sum(), rho * c * 8.0e6 * thickness)
mesh.coord = np.rint(mesh.coord).astype(int)  # integers, plate inclined in 3D
_, C_int, _, _ = simu.Get_K_C_M_F()
# reference: area of the plate defined by these (rounded) nodes, shoelace formula in 3D per element
g = mesh.groupElem
X = mesh.coord.astype(float)[g.connect]
areaRef = 0.5 * np.linalg.norm(
    np.cross(X[:, 2] - X[:, 0], X[:, 3] - X[:, 1]), axis=1
).sum()  # exact for planar quads, excellent for the slightly warped ones obtained after rounding
print("same plate, inclined, coordinates rounded to integers with `mesh.coord = ...`")
report("sum of the capacity matrix", C_int.sum(), rho * c * areaRef * thickness)

if bad:
    print(
        "\nDEFECT: integer-typed coordinates are truncated when the elements are projected in their own basis"
    )
    sys.exit(1)
print("\nno defect observed")
sys.exit(0)
