"""MeshZoo — small deterministic meshes shared by the property drivers.

Two sources (DESIGN §3):
  * template meshes built WITHOUT gmsh from a grid of parent cells; the nodes of each element are the
    images of the implementation's reference nodes (Get_Local_Coords) through the cell's (multi)linear
    vertex map, merged by coordinate.  They give 1/2-element meshes, general straight-sided quads/hexas,
    mixed meshes, and exact reference geometry (area / volume / centroid known in closed form).
  * gmsh meshes through the library's own Geoms.*.Mesh_2D / Mesh_Extrude of polygons with known measure.
"""
from __future__ import annotations

import itertools
from collections import Counter

import numpy as np

# ------------------------------------------------------------------------------------------------
# topology tables
# ------------------------------------------------------------------------------------------------
LINEAR_OF = {
    "SEG": "SEG2", "TRI": "TRI3", "QUAD": "QUAD4", "TETRA": "TETRA4", "HEXA": "HEXA8", "PRISM": "PRISM6",
}
SEG_OF_ORDER = {1: "SEG2", 2: "SEG3", 3: "SEG4", 4: "SEG5"}
TYPES_1D = ["SEG2", "SEG3", "SEG4", "SEG5"]
TYPES_2D = ["TRI3", "TRI6", "TRI10", "TRI15", "QUAD4", "QUAD8", "QUAD9"]
TYPES_3D = ["TETRA4", "TETRA10", "HEXA8", "HEXA20", "HEXA27", "PRISM6", "PRISM15", "PRISM18"]
ALL_TYPES = TYPES_1D + TYPES_2D + TYPES_3D
FACE_TYPES = {
    "TETRA4": {3: "TRI3"}, "TETRA10": {6: "TRI6"},
    "HEXA8": {4: "QUAD4"}, "HEXA20": {8: "QUAD8"}, "HEXA27": {9: "QUAD9"},
    "PRISM6": {3: "TRI3", 4: "QUAD4"}, "PRISM15": {6: "TRI6", 8: "QUAD8"}, "PRISM18": {6: "TRI6", 9: "QUAD9"},
}
MIXED_2D = [("TRI3", "QUAD4"), ("TRI6", "QUAD8"), ("TRI6", "QUAD9")]
MIXED_3D = [("PRISM6", "HEXA8"), ("PRISM15", "HEXA20"), ("PRISM18", "HEXA27")]


def topo(et: str) -> str:
    return "".join(c for c in et if not c.isdigit())


def dim_of(et: str) -> int:
    return {"SEG": 1, "TRI": 2, "QUAD": 2, "TETRA": 3, "HEXA": 3, "PRISM": 3}[topo(et)]


def _ET(name):
    from EasyFEA import ElemType

    return ElemType[name]


_PROTO = {}


def proto(et: str):
    """A throw-away one-element group of the given type (access to tables of the implementation)."""
    if et not in _PROTO:
        from EasyFEA.FEM._group_elem import GroupElemFactory

        e = _ET(et)
        nPe = GroupElemFactory.DICT_ELEMTYPE[e][1]
        coords = np.zeros((nPe, 3))
        coords[:, 0] = np.arange(nPe)
        _PROTO[et] = GroupElemFactory.Create(e, np.arange(nPe)[None, :], coords)
    return _PROTO[et]


def local_coords(et: str) -> np.ndarray:
    g = proto(et)
    return np.asarray(g.Get_Local_Coords(), dtype=float).reshape(g.nPe, -1)


def linear_shape(et: str, xi: np.ndarray) -> np.ndarray:
    """Vertex (multi)linear shape functions of the topology of `et` at reference points xi (n, dim) -> (n, nVertex).
    Written here independently of the implementation."""
    t = topo(et)
    xi = np.atleast_2d(np.asarray(xi, dtype=float))
    if t == "SEG":
        r = xi[:, 0]
        return np.stack([(1 - r) / 2, (1 + r) / 2], axis=1)
    if t == "TRI":
        r, s = xi[:, 0], xi[:, 1]
        return np.stack([1 - r - s, r, s], axis=1)
    if t == "QUAD":
        r, s = xi[:, 0], xi[:, 1]
        V = local_coords("QUAD4")
        return np.stack([(1 + r * a) * (1 + s * b) / 4 for a, b in V], axis=1)
    if t == "TETRA":
        r, s, u = xi[:, 0], xi[:, 1], xi[:, 2]
        V = local_coords("TETRA4")
        # barycentric coordinates wrt the reference vertices
        A = np.hstack([V, np.ones((4, 1))]).T
        X = np.hstack([xi, np.ones((xi.shape[0], 1))]).T
        return np.linalg.solve(A, X).T
    if t == "HEXA":
        V = local_coords("HEXA8")
        r, s, u = xi[:, 0], xi[:, 1], xi[:, 2]
        return np.stack([(1 + r * a) * (1 + s * b) * (1 + u * c) / 8 for a, b, c in V], axis=1)
    if t == "PRISM":
        V = local_coords("PRISM6")
        # triangle part in two of the coordinates, linear in the third (detected from the vertex table)
        out = []
        # find which axis takes only two values {-1, 1}
        ax = [k for k in range(3) if set(np.round(V[:, k], 12)) == {-1.0, 1.0}]
        assert len(ax) == 1, "unexpected PRISM6 reference element"
        z = ax[0]
        tri = [k for k in range(3) if k != z]
        for v in V:
            # barycentric of triangle vertex
            if v[tri[0]] == 0 and v[tri[1]] == 0:
                lam = 1 - xi[:, tri[0]] - xi[:, tri[1]]
            elif v[tri[0]] == 1:
                lam = xi[:, tri[0]]
            else:
                lam = xi[:, tri[1]]
            out.append(lam * (1 + v[z] * xi[:, z]) / 2)
        return np.stack(out, axis=1)
    raise KeyError(et)


# ------------------------------------------------------------------------------------------------
# mesh record
# ------------------------------------------------------------------------------------------------
class ZooMesh:
    """coords (Nn,3) + {elemType: connect} for the main groups; boundary groups optional.
    `exact` holds closed-form geometry of the tiled domain: measure, centroid (3,), dim."""

    def __init__(self, coords, groups: dict, exact: dict, name: str, boundary: dict | None = None):
        self.coords = np.asarray(coords, dtype=float)
        self.groups = {k: np.asarray(v, dtype=int) for k, v in groups.items()}
        self.boundary = {k: np.asarray(v, dtype=int) for k, v in (boundary or {}).items()}
        self.exact = exact
        self.name = name

    @property
    def dim(self):
        return max(dim_of(k) for k in self.groups)

    def build(self, with_boundary=True, coord_dtype=None):
        """-> EasyFEA Mesh (fresh objects on every call).
        coord_dtype (optional, default: float64 as stored): dtype of the coordinate array handed to the library, e.g. "int64" for a
        hand-typed mesh whose node coordinates are whole numbers (the coordinates must then be whole numbers: nothing is lost)."""
        from EasyFEA.FEM._group_elem import GroupElemFactory
        from EasyFEA.FEM._mesh import Mesh

        co = self.coords
        if coord_dtype is not None and np.dtype(coord_dtype).kind in "iu":
            assert np.abs(co - np.rint(co)).max(initial=0.0) < 1e-9, "harness: integer-typed coordinates need whole-number coordinates"
            co = np.rint(co).astype(coord_dtype)
        elif coord_dtype is not None:
            co = co.astype(coord_dtype)
        d = {}
        if with_boundary:
            for et, con in self.boundary.items():
                d[_ET(et)] = GroupElemFactory.Create(_ET(et), con.copy(), co.copy())
        for et, con in self.groups.items():
            d[_ET(et)] = GroupElemFactory.Create(_ET(et), con.copy(), co.copy())
        return Mesh(d)

    # -- derived meshes
    def kinked(self, x0=0.5, w=0.3, name=None) -> "ZooMesh":
        """Piecewise-linear stretch along x with the kink on the plane x = x0 (a cell boundary of the template on [0, 1]):
        [0, x0] -> [0, w], [x0, 1] -> [w, 1].  Each cell is mapped affinely (straight-sided elements of any order stay valid),
        the tiled domain, hence measure and centroid, are unchanged, but cells on either side get different measures."""
        co = self.coords.copy()
        x = co[:, 0]
        co[:, 0] = np.where(x <= x0 + 1e-12, x * (w / x0), w + (x - x0) * ((1.0 - w) / (1.0 - x0)))
        return ZooMesh(co, self.groups, dict(self.exact), name or f"{self.name}|kink", self.boundary)

    def tapered(self, a=0.3, name=None) -> "ZooMesh":
        """(x, y, z) -> (x s, y s, z), s = 1 - a z, of a template on the unit cube made of HEXA / PRISM cells (edges vertical or
        horizontal): faces stay planar and edges straight, the cells become non-affine frusta. Exact volume and centroid by integration."""
        co = self.coords.copy()
        sc = 1.0 - a * co[:, 2]
        co[:, 0] *= sc
        co[:, 1] *= sc
        i2 = 1 - a + a * a / 3                      # int_0^1 s^2 dz
        i3 = 1 - 1.5 * a + a * a - a ** 3 / 4       # int_0^1 s^3 dz
        iz = 0.5 - 2 * a / 3 + a * a / 4            # int_0^1 z s^2 dz
        ex = dict(self.exact, measure=i2, centroid=np.array([0.5 * i3 / i2, 0.5 * i3 / i2, iz / i2]))
        return ZooMesh(co, self.groups, ex, name or f"{self.name}|taper", self.boundary)

    def curved(self, amp=0.06, name=None) -> "ZooMesh":
        """Elements of order >= 2 with CURVED interior edges / faces: every node that is neither a vertex of an element nor on
        the boundary of the domain is displaced by amp * (shortest vertex distance) in a direction that depends on its position
        (shared nodes move once, so the mesh stays conforming).  The boundary is untouched, hence the tiled domain, its measure
        and its centroid are unchanged, while the element maps are no longer affine (simplices) / multilinear (quads, hexas):
        the Jacobian varies inside every element that owns a moved node.  In 1D the mid nodes slide along the member
        (non-uniform parametrisation).  Linear fields stay in the isoparametric space, so the patch test still holds wherever the
        stiffness rule integrates cof(J) grad N exactly (every type of the library but TETRA10 with its 4-point rule)."""
        co = self.coords.copy()
        d = self.dim
        vert, h = set(), np.inf
        for et, con in self.groups.items():
            nv = local_coords(LINEAR_OF[topo(et)]).shape[0]
            vert.update(con[:, :nv].ravel().tolist())
            X = co[con[:, :nv]]
            dd = np.linalg.norm(X[:, :, None, :] - X[:, None, :, :], axis=-1)
            dd[dd == 0] = np.inf
            h = min(h, float(dd.min()))
        bn = set(self.boundary_nodes().tolist())
        moved = [i for i in range(self.Nn) if i not in vert and i not in bn]
        for i in moved:
            x = co[i].copy()
            ph = np.array([np.sin(7.3 * x[0] + 1.1 * x[1] + 2.9 * x[2] + 0.4), np.cos(5.1 * x[0] - 3.3 * x[1] + 1.7 * x[2] + 1.0),
                           np.sin(2.3 * x[0] + 4.7 * x[1] - 3.1 * x[2] + 2.0)])
            co[i, :d] += amp * h * ph[:d]
        out = ZooMesh(co, self.groups, dict(self.exact), name or f"{self.name}|curved", self.boundary)
        out.n_moved = len(moved)
        return out

    def mapped(self, A=None, b=None, name=None) -> "ZooMesh":
        """Affine image x -> A x + b (A 3x3)."""
        A = np.eye(3) if A is None else np.asarray(A, dtype=float)
        b = np.zeros(3) if b is None else np.asarray(b, dtype=float)
        co = self.coords @ A.T + b
        ex = dict(self.exact)
        if "measure" in ex:
            d = self.dim
            if d == 3:
                ex["measure"] = ex["measure"] * abs(np.linalg.det(A))
            elif d == 2:
                # planar mesh in z=0 : area scales with the norm of the image of e1 x e2
                ex["measure"] = ex["measure"] * np.linalg.norm(np.cross(A[:, 0], A[:, 1]))
            else:
                ex["measure"] = ex["measure"] * np.linalg.norm(A[:, 0])
        if "centroid" in ex:
            ex["centroid"] = A @ np.asarray(ex["centroid"]) + b
        groups, boundary = self.groups, self.boundary
        return ZooMesh(co, groups, ex, name or (self.name + "|mapped"), boundary)

    def renumbered(self, perm, name=None) -> "ZooMesh":
        """new node id of old node i is perm[i]."""
        perm = np.asarray(perm, dtype=int)
        co = np.empty_like(self.coords)
        co[perm] = self.coords
        groups = {k: perm[v] for k, v in self.groups.items()}
        boundary = {k: perm[v] for k, v in self.boundary.items()}
        return ZooMesh(co, groups, dict(self.exact), name or (self.name + "|renum"), boundary)

    def with_orphan(self, point=(7.0, 7.0, 0.0)) -> "ZooMesh":
        co = np.vstack([self.coords, np.asarray(point, dtype=float)[None, :]])
        return ZooMesh(co, self.groups, dict(self.exact), self.name + "|orphan", self.boundary)

    @property
    def Nn(self):
        return self.coords.shape[0]

    def interior_nodes(self) -> np.ndarray:
        bn = set()
        for con in self.boundary.values():
            bn.update(con.ravel().tolist())
        return np.array(sorted(set(range(self.Nn)) - bn), dtype=int)

    def boundary_nodes(self) -> np.ndarray:
        bn = set()
        for con in self.boundary.values():
            bn.update(con.ravel().tolist())
        return np.array(sorted(bn), dtype=int)


class _NodeBank:
    def __init__(self):
        self.key2id = {}
        self.coords = []

    def get(self, x):
        x = np.asarray(x, dtype=float)
        x3 = np.zeros(3)
        x3[: x.size] = x
        k = tuple(np.round(x3, 9) + 0.0)
        if k not in self.key2id:
            self.key2id[k] = len(self.coords)
            self.coords.append(x3)
        return self.key2id[k]


def _add_elem(bank, groups, et, verts):
    """verts: (nVertex, 3) physical vertices in the reference vertex ordering of the topology."""
    xi = local_coords(et)
    Nl = linear_shape(et, xi)  # (nPe, nVertex)
    X = Nl @ np.asarray(verts, dtype=float)
    groups.setdefault(et, []).append([bank.get(x) for x in X])


def compute_boundary(coords, groups: dict) -> dict:
    """Boundary element groups by face counting, using the implementation's `edges` / `faces` tables."""
    dims = {dim_of(et) for et in groups}
    d = max(dims)
    if d == 1:
        return {}
    faces_all = []
    for et, con in groups.items():
        if dim_of(et) != d:
            continue
        g = proto(et)
        con = np.asarray(con, dtype=int)
        if d == 2:
            tab = [list(r) for r in np.asarray(g.edges)]
            ftypes = {len(tab[0]): SEG_OF_ORDER[g.order]}
        else:
            tab = [list(r) for r in g.faces]
            ftypes = FACE_TYPES[et]
        for e in range(con.shape[0]):
            for f in tab:
                nodes = con[e, np.asarray(f, dtype=int)]
                faces_all.append((tuple(sorted(nodes.tolist())), ftypes[len(f)], nodes))
    cnt = Counter(k for k, _, _ in faces_all)
    out: dict = {}
    for k, ft, nodes in faces_all:
        if cnt[k] == 1:
            out.setdefault(ft, []).append(nodes)
    return {k: np.array(v, dtype=int) for k, v in out.items()}


# ------------------------------------------------------------------------------------------------
# template meshes
# ------------------------------------------------------------------------------------------------
def _kk(k, d):
    return tuple(k) if isinstance(k, (tuple, list)) else (k,) * d


def _grid_vertices_2d(k, distort, size=(1.0, 1.0)):
    kx, ky = _kk(k, 2)
    xs = np.linspace(0, size[0], kx + 1)
    ys = np.linspace(0, size[1], ky + 1)
    P = np.zeros((kx + 1, ky + 1, 3))
    for i, j in itertools.product(range(kx + 1), range(ky + 1)):
        P[i, j, 0], P[i, j, 1] = xs[i], ys[j]
    if distort:
        if kx >= 2 and ky >= 2:
            # displace interior vertices: cells become general (non-parallelogram) quadrangles
            for i, j in itertools.product(range(1, kx), range(1, ky)):
                P[i, j, 0] += 0.13 * size[0] / kx * (1 if (i + j) % 2 == 0 else -0.7)
                P[i, j, 1] += 0.09 * size[1] / ky
        else:
            # single cell: move one corner -> non-parallelogram, domain is a general convex quadrilateral
            P[kx, ky, 0] += 0.25 * size[0]
            P[kx, ky, 1] += 0.15 * size[1]
    return P


def _poly_area_centroid(pts):
    pts = np.asarray(pts, dtype=float)
    x, y = pts[:, 0], pts[:, 1]
    x1, y1 = np.roll(x, -1), np.roll(y, -1)
    cr = x * y1 - x1 * y
    A = cr.sum() / 2
    cx = ((x + x1) * cr).sum() / (6 * A)
    cy = ((y + y1) * cr).sum() / (6 * A)
    return A, np.array([cx, cy, 0.0])


def template_2d(et: str | tuple, k: int = 2, distort: bool = False, diag: int = 0, size=(1.0, 1.0)) -> ZooMesh:
    """k x k parent cells on [0,sx]x[0,sy]; et = type or (triType, quadType) for a mixed mesh (cells alternate)."""
    P = _grid_vertices_2d(k, distort, size)
    bank, groups = _NodeBank(), {}
    ets = et if isinstance(et, tuple) else (et,)
    area, mom = 0.0, np.zeros(3)
    kx, ky = _kk(k, 2)
    for n, (i, j) in enumerate(itertools.product(range(kx), range(ky))):
        a, b, c, d = P[i, j], P[i + 1, j], P[i + 1, j + 1], P[i, j + 1]
        A, cen = _poly_area_centroid([a, b, c, d])
        area += A
        mom += A * cen
        this = ets[(i + j) % len(ets)] if len(ets) > 1 else ets[0]
        if topo(this) == "QUAD":
            # reference QUAD4 vertex order from the implementation's local coords: map (-1,-1)->a (1,-1)->b (1,1)->c (-1,1)->d
            V = local_coords("QUAD4")
            corner = {(-1, -1): a, (1, -1): b, (1, 1): c, (-1, 1): d}
            verts = [corner[(int(v[0]), int(v[1]))] for v in V]
            _add_elem(bank, groups, this, verts)
        else:
            if (diag + (i + j if diag == 2 else 0)) % 2 == 0:
                tris = [(a, b, c), (a, c, d)]
            else:
                tris = [(a, b, d), (b, c, d)]
            for t in tris:
                _add_elem(bank, groups, this, t)
    coords = np.array(bank.coords)
    groups = {kk: np.array(v, dtype=int) for kk, v in groups.items()}
    exact = {"measure": area, "centroid": mom / area, "dim": 2}
    nm = f"T2D[{'+'.join(ets)},k={k},distort={int(distort)},diag={diag}]"
    return ZooMesh(coords, groups, exact, nm, compute_boundary(coords, groups))


_KUHN = [p for p in itertools.permutations(range(3))]


def _hexa_vertices_3d(k, distort, size=(1.0, 1.0, 1.0)):
    kx, ky, kz = _kk(k, 3)
    P = np.zeros((kx + 1, ky + 1, kz + 1, 3))
    for i, j, l in itertools.product(range(kx + 1), range(ky + 1), range(kz + 1)):
        P[i, j, l] = [size[0] * i / kx, size[1] * j / ky, size[2] * l / kz]
    if distort:
        if min(kx, ky, kz) >= 2:
            for i, j, l in itertools.product(range(1, kx), range(1, ky), range(1, kz)):
                P[i, j, l] += np.array([0.12, 0.08, -0.1]) * np.array(size) / np.array([kx, ky, kz])
        else:
            P[kx, ky, kz] += np.array([0.2, 0.12, 0.16]) * np.array(size)
    return P


def _tet_vol(a, b, c, d):
    return np.linalg.det(np.array([b - a, c - a, d - a])) / 6.0


def template_3d(et: str | tuple, k: int = 1, distort: bool = False, size=(1.0, 1.0, 1.0)) -> ZooMesh:
    """k^3 parent hexahedral cells; HEXA: one per cell, PRISM: two per cell, TETRA: six (Kuhn) per cell.
    With distort=True only HEXA cells stay exactly representable (trilinear); for PRISM/TETRA the distorted
    cell is split along planar faces only when k>=2 displaces interior vertices (faces become non planar for
    prisms) so distort is honoured for HEXA and TETRA only."""
    ets = et if isinstance(et, tuple) else (et,)
    P = _hexa_vertices_3d(k, distort, size)
    bank, groups = _NodeBank(), {}
    vol, mom = 0.0, np.zeros(3)
    Vh = local_coords("HEXA8")
    Vp = local_coords("PRISM6")
    kx, ky, kz = _kk(k, 3)
    for (i, j, l) in itertools.product(range(kx), range(ky), range(kz)):
        c = {(a, b, d): P[i + a, j + b, l + d] for a, b, d in itertools.product((0, 1), repeat=3)}
        this = ets[(i + j + l) % len(ets)] if len(ets) > 1 else ets[0]
        # exact volume / centroid through the Kuhn tetrahedra only when cell faces are planar; otherwise numerically below
        if topo(this) == "HEXA":
            verts = [c[(int((v[0] + 1) // 2), int((v[1] + 1) // 2), int((v[2] + 1) // 2))] for v in Vh]
            _add_elem(bank, groups, this, verts)
        elif topo(this) == "PRISM":
            # reference prism: triangle in two axes, the third in {-1,1}
            z = [kk for kk in range(3) if set(np.round(Vp[:, kk], 12)) == {-1.0, 1.0}][0]
            tri = [kk for kk in range(3) if kk != z]
            for tri_xy in ([(0, 0), (1, 0), (1, 1)], [(0, 0), (1, 1), (0, 1)]):
                verts = []
                for v in Vp:
                    if v[tri[0]] == 0 and v[tri[1]] == 0:
                        xy = tri_xy[0]
                    elif v[tri[0]] == 1:
                        xy = tri_xy[1]
                    else:
                        xy = tri_xy[2]
                    zz = int((v[z] + 1) // 2)
                    verts.append(c[(xy[0], xy[1], zz)])
                _add_elem(bank, groups, this, verts)
        else:
            for perm in _KUHN:
                idx = [0, 0, 0]
                path = [tuple(idx)]
                for ax in perm:
                    idx[ax] = 1
                    path.append(tuple(idx))
                a, b, cc, d = [c[p] for p in path]
                if _tet_vol(a, b, cc, d) < 0:
                    b, cc = cc, b
                _add_elem(bank, groups, this, [a, b, cc, d])
    coords = np.array(bank.coords)
    groups = {kk: np.array(v, dtype=int) for kk, v in groups.items()}
    exact = {"dim": 3}
    if not distort:
        exact.update({"measure": float(np.prod(size)), "centroid": np.array(size) / 2})
    nm = f"T3D[{'+'.join(ets)},k={k},distort={int(distort)}]"
    return ZooMesh(coords, groups, exact, nm, compute_boundary(coords, groups))


def template_1d(et: str, n: int = 2, graded: bool = False, L: float = 1.0) -> ZooMesh:
    xs = np.linspace(0, 1, n + 1)
    if graded:
        xs = xs ** 1.7
    xs = xs * L
    bank, groups = _NodeBank(), {}
    for e in range(n):
        _add_elem(bank, groups, et, [np.array([xs[e], 0, 0]), np.array([xs[e + 1], 0, 0])])
    coords = np.array(bank.coords)
    groups = {kk: np.array(v, dtype=int) for kk, v in groups.items()}
    exact = {"measure": L, "centroid": np.array([L / 2, 0, 0]), "dim": 1}
    return ZooMesh(coords, groups, exact, f"T1D[{et},n={n},graded={int(graded)}]", {})


# ------------------------------------------------------------------------------------------------
# gmsh meshes through the library's own geometry API
# ------------------------------------------------------------------------------------------------
POLYGONS = {
    "quad": [(0.0, 0.0), (1.3, 0.1), (1.1, 0.9), (-0.1, 1.0)],
    "pent": [(0.0, 0.0), (1.0, -0.1), (1.4, 0.6), (0.6, 1.2), (-0.2, 0.7)],
    "L": [(0.0, 0.0), (1.2, 0.0), (1.2, 0.5), (0.5, 0.5), (0.5, 1.1), (0.0, 1.1)],
    "square": [(0.0, 0.0), (1.0, 0.0), (1.0, 1.0), (0.0, 1.0)],
}


def gmsh_2d(et: str, poly: str = "quad", h: float = 0.6, organised: bool = False):
    """-> (EasyFEA Mesh, exact dict). Unstructured (or transfinite when organised) mesh of a polygon."""
    from EasyFEA.Geoms import Points

    pts = POLYGONS[poly]
    mesh = Points(pts, h).Mesh_2D([], _ET(et), isOrganised=organised)
    A, c = _poly_area_centroid(pts)
    return mesh, {"measure": A, "centroid": c, "dim": 2, "polygon": pts}


def gmsh_3d(et: str, poly: str = "quad", h: float = 0.7, height: float = 0.8, layers: int = 2, organised=False):
    from EasyFEA.Geoms import Points

    pts = POLYGONS[poly]
    mesh = Points(pts, h).Mesh_Extrude([], [0, 0, height], [layers], _ET(et), isOrganised=organised)
    A, c = _poly_area_centroid(pts)
    cen = c.copy()
    cen[2] = height / 2
    return mesh, {"measure": A * height, "centroid": cen, "dim": 3, "polygon": pts, "height": height}


def gmsh_1d(et: str, L: float = 1.0, n: int = 3):
    from EasyFEA.Geoms import Line, Point

    mesh = Line(Point(0, 0), Point(L, 0), L / n).Mesh_1D(_ET(et)) if hasattr(Line, "Mesh_1D") else None
    return mesh, {"measure": L, "centroid": np.array([L / 2, 0, 0]), "dim": 1}


def zoo_from_mesh(mesh, exact=None, name="fromMesh") -> ZooMesh:
    """ZooMesh record (plain arrays) from an EasyFEA mesh (e.g. a gmsh mesh), POINT groups dropped."""
    coords = np.array(mesh.coord, dtype=float)
    d = mesh.dim
    groups, boundary = {}, {}
    for et, g in mesh.dict_groupElem.items():
        if g.dim == d:
            groups[et.name] = np.array(g.connect, dtype=int)
        elif g.dim == d - 1 and g.dim >= 1:
            boundary[et.name] = np.array(g.connect, dtype=int)
    return ZooMesh(coords, groups, dict(exact or {}), name, boundary)


# ------------------------------------------------------------------------------------------------
# transformations & numberings
# ------------------------------------------------------------------------------------------------
def rot3(axis, angle):
    axis = np.asarray(axis, dtype=float)
    axis = axis / np.linalg.norm(axis)
    K = np.array([[0, -axis[2], axis[1]], [axis[2], 0, -axis[0]], [-axis[1], axis[0], 0]])
    return np.eye(3) + np.sin(angle) * K + (1 - np.cos(angle)) * K @ K


def generic_affine(rng, dim: int) -> np.ndarray:
    """well-conditioned affine map (3x3) acting in the first `dim` coordinates: stretch in [0.6,1.7], shear <=0.4, rotation."""
    A = np.eye(3)
    S = np.eye(dim)
    for i in range(dim):
        S[i, i] = rng.uniform(0.6, 1.7)
    for i in range(dim):
        for j in range(i + 1, dim):
            S[i, j] = rng.uniform(-0.4, 0.4)
    if dim == 1:
        R = np.eye(1)
    elif dim == 2:
        t = rng.uniform(0.3, 2.8)
        R = np.array([[np.cos(t), -np.sin(t)], [np.sin(t), np.cos(t)]])
    else:
        R = rot3(rng.normal(size=3), rng.uniform(0.3, 2.8))
    A[:dim, :dim] = R @ S
    return A


def reflection(dim: int) -> np.ndarray:
    A = np.eye(3)
    A[0, 0] = -1.0
    return A


def numberings(Nn: int, rng, all_if_leq: int = 0) -> dict:
    out = {"identity": np.arange(Nn), "reversal": np.arange(Nn)[::-1].copy(), "seeded": rng.permutation(Nn)}
    return out
