"""Reference models of C01 (patch test), plain numpy, written from the documented semantics of the laws:

* elastic laws as full 4th-order tensors (no Kelvin-Mandel / Voigt vectors of the implementation are reused):
  engineering constants -> compliance in the material frame -> rotation of the tensor to the global frame ->
  3D / plane strain / plane stress restriction -> sigma = C : eps on plain (d,d) matrices;
* beam frames, section constants of a rectangle, the exact displacement / rotation fields of constant axial strain,
  constant curvature, constant twist and the rigid modes of a straight beam;
* a few mesh helpers the zoo does not provide (conforming mixed 3D mesh, independent volume of straight-sided
  hexahedra / tetrahedra, end nodes of a 1D mesh).
"""
from __future__ import annotations

import itertools

import numpy as np

from zoo import meshes as Z

# ------------------------------------------------------------------------------------------------
# 4th-order tensors <-> own 6x6 "Mandel" matrices (order 11,22,33,23,13,12; only used inside this file)
# ------------------------------------------------------------------------------------------------
_PAIRS = [(0, 0), (1, 1), (2, 2), (1, 2), (0, 2), (0, 1)]
_W = np.array([1.0, 1.0, 1.0, np.sqrt(2.0), np.sqrt(2.0), np.sqrt(2.0)])


def mat6_to_tensor(M, weights=_W):
    """6x6 matrix acting on [11,22,33,w*23,w*13,w*12] vectors -> C_ijkl with minor symmetries."""
    T = np.zeros((3, 3, 3, 3))
    for I, (i, j) in enumerate(_PAIRS):
        for J, (k, l) in enumerate(_PAIRS):
            v = M[I, J] / (weights[I] * weights[J])
            T[i, j, k, l] = T[j, i, k, l] = T[i, j, l, k] = T[j, i, l, k] = v
    return T


def tensor_to_mat6(T):
    M = np.zeros((6, 6))
    for I, (i, j) in enumerate(_PAIRS):
        for J, (k, l) in enumerate(_PAIRS):
            M[I, J] = T[i, j, k, l] * _W[I] * _W[J]
    return M


def rotate4(T, R):
    """T'_ijkl = R_ia R_jb R_kc R_ld T_abcd ; columns of R = material axes written in global coordinates."""
    return np.einsum("ia,jb,kc,ld,abcd->ijkl", R, R, R, R, T)


def frame(axis_1, axis_2):
    a1 = np.asarray(axis_1, dtype=float)
    a2 = np.asarray(axis_2, dtype=float)
    a1 = a1 / np.linalg.norm(a1)
    a2 = a2 / np.linalg.norm(a2)
    a3 = np.cross(a1, a2)
    return np.stack([a1, a2, a3], axis=1)


def compliance_engineering(E1, E2, E3, G23, G13, G12, v23, v13, v12):
    """eps = S : sigma in the material frame (documented meaning: v_ij = -eps_j/eps_i under sigma_i)."""
    S = np.zeros((6, 6))
    S[0, 0], S[1, 1], S[2, 2] = 1 / E1, 1 / E2, 1 / E3
    S[0, 1] = S[1, 0] = -v12 / E1
    S[0, 2] = S[2, 0] = -v13 / E1
    S[1, 2] = S[2, 1] = -v23 / E2
    # engineering shear 2 eps_23 = sigma_23 / G23  ->  Mandel: (sqrt2 eps_23) = 1/(2 G23) (sqrt2 sigma_23)
    S[3, 3], S[4, 4], S[5, 5] = 1 / (2 * G23), 1 / (2 * G13), 1 / (2 * G12)
    return S


class ElasticRef:
    """sigma(eps) for a homogeneous linear elastic law; dim 2 (plane stress / plane strain) or 3."""

    def __init__(self, dim, C4_material=None, R=None, planeStress=False, C2_inplane=None, R2=None):
        self.dim = dim
        if C2_inplane is not None:
            # user-supplied in-plane stiffness (2D anisotropic given as a 3x3 matrix): rotate in the plane only
            T = np.zeros((2, 2, 2, 2))
            pairs = [(0, 0), (1, 1), (0, 1)]
            for I, (i, j) in enumerate(pairs):
                for J, (k, l) in enumerate(pairs):
                    v = C2_inplane[I, J]
                    T[i, j, k, l] = T[j, i, k, l] = T[i, j, l, k] = T[j, i, l, k] = v
            R2 = np.eye(2) if R2 is None else R2
            self.C = np.einsum("ia,jb,kc,ld,abcd->ijkl", R2, R2, R2, R2, T)
            return
        R = np.eye(3) if R is None else R
        Cg = rotate4(C4_material, R)
        if dim == 3:
            self.C = Cg
        elif not planeStress:
            self.C = Cg[:2, :2, :2, :2].copy()
        else:
            # plane stress: sigma_i3 = 0 ; in-plane compliance is the in-plane block of the 3D compliance
            S6 = np.linalg.inv(tensor_to_mat6(Cg))
            idx = [0, 1, 5]
            C3 = np.linalg.inv(S6[np.ix_(idx, idx)])
            w = np.array([1.0, 1.0, np.sqrt(2.0)])
            T = np.zeros((2, 2, 2, 2))
            pairs = [(0, 0), (1, 1), (0, 1)]
            for I, (i, j) in enumerate(pairs):
                for J, (k, l) in enumerate(pairs):
                    v = C3[I, J] / (w[I] * w[J])
                    T[i, j, k, l] = T[j, i, k, l] = T[i, j, l, k] = T[j, i, l, k] = v
            self.C = T

    def sigma(self, eps):
        return np.einsum("ijkl,kl->ij", self.C, eps)

    def energy_density(self, eps):
        return 0.5 * float(np.einsum("ij,ij->", self.sigma(eps), eps))

    def norm(self):
        return float(np.abs(self.C).max())


def isotropic_C4(E, v):
    lam = E * v / ((1 + v) * (1 - 2 * v))
    mu = E / (2 * (1 + v))
    I = np.eye(3)
    return lam * np.einsum("ij,kl->ijkl", I, I) + mu * (np.einsum("ik,jl->ijkl", I, I) + np.einsum("il,jk->ijkl", I, I))


def engineering_C4(**p):
    S6 = compliance_engineering(**p)
    return mat6_to_tensor(np.linalg.inv(S6))


TRANS_PARAMS = dict(El=2.3, Et=1.1, Gl=0.7, vl=0.28, vt=0.35)
ORTHO_PARAMS = dict(E1=2.0, E2=1.2, E3=0.8, G23=0.4, G13=0.55, G12=0.6, v23=0.25, v13=0.3, v12=0.2)
ISO_PARAMS = dict(E=1.9, v=0.3)


def trans_as_engineering(El, Et, Gl, vl, vt):
    """axis 1 = longitudinal L, axes 2,3 = transverse plane (isotropic): G_TR = Et / (2 (1 + vt))."""
    return dict(E1=El, E2=Et, E3=Et, G23=Et / (2 * (1 + vt)), G13=Gl, G12=Gl, v23=vt, v13=vl, v12=vl)


def generic_spd(rng, n, lo=0.6, hi=2.4):
    Q, _ = np.linalg.qr(rng.normal(size=(n, n)))
    lam = rng.uniform(lo, hi, size=n)
    C = (Q * lam) @ Q.T
    return (C + C.T) / 2


# ------------------------------------------------------------------------------------------------
# beams
# ------------------------------------------------------------------------------------------------
def beam_frame(p1, p2, yAxis):
    """(i, j, k): fiber direction, vertical cross-section axis made orthogonal to the fiber, k = i x j."""
    i = np.asarray(p2, float) - np.asarray(p1, float)
    i = i / np.linalg.norm(i)
    y = np.asarray(yAxis, float)
    y = y / np.linalg.norm(y)
    k = np.cross(i, y)
    k = k / np.linalg.norm(k)
    j = np.cross(k, i)
    return i, j, k


def rect_section(b, h):
    """rectangle b (section x) x h (section y): area, Iy = int x^2, Iz = int y^2, J = Iy + Iz (documented polar moment)."""
    return dict(A=b * h, Iy=h * b ** 3 / 12, Iz=b * h ** 3 / 12, J=h * b ** 3 / 12 + b * h ** 3 / 12)


def beam_fields(dim):
    if dim == 1:
        return ["axial", "rigid_tx"]
    if dim == 2:
        return ["axial", "bend_z", "rigid_tx", "rigid_ty", "rigid_rz"]
    return ["axial", "twist", "bend_z", "bend_y", "rigid_tx", "rigid_ty", "rigid_tz", "rigid_rx", "rigid_ry", "rigid_rz"]


def beam_exact(field, X, p1, frame_ijk, amp=1.0):
    """-> (U (Nn,3) displacement, Rot (Nn,3) rotation vector, generalized strains dict) of the named field."""
    i, j, k = frame_ijk
    X = np.asarray(X, float)
    s = (X - np.asarray(p1, float)) @ i
    U = np.zeros_like(X)
    Rot = np.zeros_like(X)
    gen = dict(eps=0.0, tau=0.0, kap_y=0.0, kap_z=0.0)
    if field == "axial":
        U = np.outer(amp * s, i)
        gen["eps"] = amp
    elif field == "twist":
        Rot = np.outer(amp * s, i)
        gen["tau"] = amp
    elif field == "bend_z":  # deflection v along j, section rotates about k by v'
        U = np.outer(amp * s ** 2 / 2, j)
        Rot = np.outer(amp * s, k)
        gen["kap_z"] = amp
    elif field == "bend_y":  # deflection w along k, section rotates about j by -w'
        U = np.outer(amp * s ** 2 / 2, k)
        Rot = np.outer(-amp * s, j)
        gen["kap_y"] = amp
    elif field.startswith("rigid_t"):
        d = "xyz".index(field[-1])
        U[:, d] = amp
    elif field.startswith("rigid_r"):
        d = "xyz".index(field[-1])
        w = np.zeros(3)
        w[d] = amp
        x0 = np.asarray(p1, float) + np.array([0.21, -0.13, 0.17])
        U = np.cross(w, X - x0)
        Rot = np.tile(w, (X.shape[0], 1))
    else:
        raise KeyError(field)
    return U, Rot, gen


# ------------------------------------------------------------------------------------------------
# mesh helpers
# ------------------------------------------------------------------------------------------------
def ends_1d(zm: Z.ZooMesh) -> np.ndarray:
    """End nodes of a 1D mesh: vertex nodes (first two nodes of a segment) used by exactly one element."""
    cnt: dict = {}
    for con in zm.groups.values():
        for n in con[:, :2].ravel().tolist():
            cnt[n] = cnt.get(n, 0) + 1
    return np.array(sorted(n for n, c in cnt.items() if c == 1), dtype=int)


_GL3 = np.polynomial.legendre.leggauss(3)


def own_measure_3d(zm: Z.ZooMesh):
    """Volume of a mesh of straight-sided HEXA / TETRA / PRISM elements from the vertex coordinates only
    (trilinear map integrated with a 3x3x3 Gauss-Legendre rule: exact; tetra: determinant; prism: 3 tetrahedra
    when its quadrilateral faces are planar)."""
    tot = 0.0
    for et, con in zm.groups.items():
        t = Z.topo(et)
        if t == "HEXA":
            V = Z.local_coords("HEXA8")
            for e in range(con.shape[0]):
                P = zm.coords[con[e, :8]]
                for (a, wa), (b, wb), (c, wc) in itertools.product(zip(*_GL3), repeat=3):
                    dN = np.array([[V[n, 0] * (1 + V[n, 1] * b) * (1 + V[n, 2] * c),
                                    (1 + V[n, 0] * a) * V[n, 1] * (1 + V[n, 2] * c),
                                    (1 + V[n, 0] * a) * (1 + V[n, 1] * b) * V[n, 2]] for n in range(8)]) / 8
                    tot += wa * wb * wc * abs(np.linalg.det(dN.T @ P))
        elif t == "TETRA":
            for e in range(con.shape[0]):
                P = zm.coords[con[e, :4]]
                tot += abs(np.linalg.det(P[1:] - P[0])) / 6
        elif t == "PRISM":
            Vp = Z.local_coords("PRISM6")
            z = [kk for kk in range(3) if set(np.round(Vp[:, kk], 12)) == {-1.0, 1.0}][0]
            lo = [n for n in range(6) if Vp[n, z] < 0]
            hi = []
            tri = [kk for kk in range(3) if kk != z]
            for n in lo:
                hi.append([m for m in range(6) if Vp[m, z] > 0 and np.allclose(Vp[m, tri], Vp[n, tri])][0])
            for e in range(con.shape[0]):
                P = zm.coords[con[e, :6]]
                a, b, c = P[lo]
                d, e_, f = P[hi]
                for tet in ((a, b, c, d), (b, c, d, e_), (c, d, e_, f)):
                    tot += abs(np.linalg.det(np.array(tet[1:]) - tet[0])) / 6
        else:
            raise KeyError(et)
    return tot


def merge(parts: list, name: str) -> Z.ZooMesh:
    """Union of template meshes, nodes merged by coordinate, boundary recomputed by face counting."""
    bank = Z._NodeBank()
    groups: dict = {}
    meas = 0.0
    for zm in parts:
        ids = np.array([bank.get(x) for x in zm.coords], dtype=int)
        for et, con in zm.groups.items():
            groups.setdefault(et, []).append(ids[con])
        meas += zm.exact["measure"]
    coords = np.array(bank.coords)
    groups = {k: np.vstack(v) for k, v in groups.items()}
    return Z.ZooMesh(coords, groups, {"measure": meas, "dim": parts[0].dim}, name, Z.compute_boundary(coords, groups))


def mixed3d_conforming(pair, layers=2) -> Z.ZooMesh:
    """2 x 2 x layers cells, prism / hexa columns alternating in (x, y) only: every interface is quad-quad or
    tri-tri (the zoo's k=2 mixed 3D template alternates along z too, which puts two triangles against one quad)."""
    parts = []
    for l in range(layers):
        zm = Z.template_3d(tuple(pair), k=[2, 2, 1], size=(1.0, 1.0, 1.0 / layers))
        parts.append(zm.mapped(np.eye(3), np.array([0, 0, l / layers])))
    return merge(parts, f"T3Dconf[{'+'.join(pair)},layers={layers}]")
