"""Exact multivariate polynomial ring over Q (fractions.Fraction), enough to evaluate the
shape-function lambdas of the implementation *symbolically*: + - * /const **int and mixing with
Python ints / floats (floats are rationalised and the rationalisation is checked to round-trip)."""
from __future__ import annotations

from fractions import Fraction
from numbers import Integral, Real


class NotInRing(Exception):
    pass


def rationalise(x) -> Fraction:
    if isinstance(x, Fraction):
        return x
    if isinstance(x, Integral):
        return Fraction(int(x))
    if isinstance(x, Real):
        xf = float(x)
        f = Fraction(xf)
        if f.denominator > 10**6:
            # a literal such as 1/3: take the small rational when it round-trips, else keep the exact binary value
            g = f.limit_denominator(10**6)
            if float(g) == xf:
                f = g
        return f
    raise NotInRing(f"operand {type(x)} outside the ring")


class Poly:
    """Sparse polynomial: dict {exponent tuple: Fraction}."""

    __slots__ = ("nvar", "terms")
    __array_priority__ = 1000

    def __init__(self, nvar: int, terms: dict | None = None):
        self.nvar = nvar
        self.terms = {k: v for k, v in (terms or {}).items() if v != 0}

    # -- constructors
    @staticmethod
    def var(nvar: int, i: int) -> "Poly":
        e = [0] * nvar
        e[i] = 1
        return Poly(nvar, {tuple(e): Fraction(1)})

    @staticmethod
    def const(nvar: int, c) -> "Poly":
        return Poly(nvar, {(0,) * nvar: rationalise(c)})

    def _coerce(self, o) -> "Poly":
        if isinstance(o, Poly):
            if o.nvar != self.nvar:
                raise NotInRing("mixed rings")
            return o
        return Poly.const(self.nvar, o)

    # -- arithmetic
    def __add__(self, o):
        o = self._coerce(o)
        t = dict(self.terms)
        for k, v in o.terms.items():
            t[k] = t.get(k, 0) + v
        return Poly(self.nvar, t)

    __radd__ = __add__

    def __neg__(self):
        return Poly(self.nvar, {k: -v for k, v in self.terms.items()})

    def __pos__(self):
        return self

    def __sub__(self, o):
        return self + (-self._coerce(o))

    def __rsub__(self, o):
        return self._coerce(o) + (-self)

    def __mul__(self, o):
        o = self._coerce(o)
        t: dict = {}
        for k1, v1 in self.terms.items():
            for k2, v2 in o.terms.items():
                k = tuple(a + b for a, b in zip(k1, k2))
                t[k] = t.get(k, 0) + v1 * v2
        return Poly(self.nvar, t)

    __rmul__ = __mul__

    def __truediv__(self, o):
        if isinstance(o, Poly):
            if o.is_const():
                o = o.const_value()
            else:
                raise NotInRing("division by a non-constant polynomial")
        c = rationalise(o)
        if c == 0:
            raise ZeroDivisionError
        return Poly(self.nvar, {k: v / c for k, v in self.terms.items()})

    def __rtruediv__(self, o):
        raise NotInRing("constant / polynomial")

    def __pow__(self, n):
        if isinstance(n, Poly):
            raise NotInRing("poly ** poly")
        if isinstance(n, float) and n.is_integer():
            n = int(n)
        if not isinstance(n, Integral) or n < 0:
            raise NotInRing(f"power {n!r}")
        r = Poly.const(self.nvar, 1)
        b = self
        n = int(n)
        while n:
            if n & 1:
                r = r * b
            b = b * b
            n >>= 1
        return r

    # -- queries
    def is_const(self) -> bool:
        return all(all(e == 0 for e in k) for k in self.terms)

    def const_value(self) -> Fraction:
        return self.terms.get((0,) * self.nvar, Fraction(0))

    def is_zero(self) -> bool:
        return not self.terms

    def __eq__(self, o):
        try:
            o = self._coerce(o)
        except NotInRing:
            return NotImplemented
        return self.terms == o.terms

    def __hash__(self):
        return hash(frozenset(self.terms.items()))

    def maxabs(self) -> Fraction:
        return max((abs(v) for v in self.terms.values()), default=Fraction(0))

    def close(self, o, tol: float = 1e-12) -> bool:
        """Coefficient-wise agreement to `tol` relative to the largest coefficient involved (>= 1).
        On the bounded reference element this bounds the pointwise difference by nterms * tol * scale."""
        o = self._coerce(o)
        d = self - o
        scale = max(Fraction(1), self.maxabs(), o.maxabs())
        return d.maxabs() <= Fraction(tol) * scale

    def degree(self) -> int:
        return max((sum(k) for k in self.terms), default=-1)

    def diff(self, i: int) -> "Poly":
        t: dict = {}
        for k, v in self.terms.items():
            if k[i] == 0:
                continue
            e = list(k)
            e[i] -= 1
            t[tuple(e)] = t.get(tuple(e), 0) + v * k[i]
        return Poly(self.nvar, t)

    def eval(self, point) -> Fraction:
        s = Fraction(0)
        for k, v in self.terms.items():
            m = v
            for x, e in zip(point, k):
                if e:
                    m *= Fraction(x) ** e
            s += m
        return s

    def __repr__(self):
        if not self.terms:
            return "0"
        names = "rst"[: self.nvar] if self.nvar <= 3 else [f"x{i}" for i in range(self.nvar)]
        parts = []
        for k in sorted(self.terms):
            mon = "*".join(f"{names[i]}^{e}" if e > 1 else names[i] for i, e in enumerate(k) if e)
            parts.append(f"{self.terms[k]}" + (f"*{mon}" if mon else ""))
        return " + ".join(parts)


def to_poly(nvar: int, value) -> Poly:
    """Result of calling a lambda on ring generators: a Poly, or a plain number (constant lambda)."""
    if isinstance(value, Poly):
        return value
    return Poly.const(nvar, value)


def monomials(nvar: int, maxdeg: int, box: bool = False):
    """Exponent tuples: total degree <= maxdeg (simplex family) or each exponent <= maxdeg (tensor family)."""
    import itertools

    out = []
    for e in itertools.product(range(maxdeg + 1), repeat=nvar):
        if box or sum(e) <= maxdeg:
            out.append(e)
    return out
