"""Reference geometry for C09 (load resultants): flat pieces with exact monomial integrals and point membership.

Everything here is written from the *template geometry* (vertex grids of the MeshZoo templates, polygon vertex lists
of the gmsh meshes), never from EasyFEA's element tables: integrals use numpy's Gauss-Legendre nodes (with the Duffy
collapse of zoo.refint for triangles), membership tests are plain vector algebra."""
from __future__ import annotations

import functools
import itertools

import numpy as np


TOL_GEOM = 1e-9


DMAX = 12  # every piece carries one point rule exact for polynomials of total degree <= DMAX


@functools.lru_cache(maxsize=None)
def _gl01(n):
    x, w = np.polynomial.legendre.leggauss(n)
    return (x + 1) / 2, w / 2


def mono_fun(e, coef=1.0):
    e0, e1, e2 = (int(k) for k in e)
    return lambda x, y, z: coef * x ** e0 * y ** e1 * z ** e2


def _tri_rule(a, b, c):
    """Duffy-collapsed tensor Gauss-Legendre rule on the flat triangle (a,b,c): points (n,3), weights (n,) (positive)."""
    u, wu = _gl01(DMAX // 2 + 2)
    U, V = np.meshgrid(u, u, indexing="ij")
    W = np.outer(wu, wu) * (1 - U)
    R, S = U, V * (1 - U)
    X = a[None, None, :] + R[..., None] * (b - a) + S[..., None] * (c - a)
    return X.reshape(-1, 3), (W * np.linalg.norm(np.cross(b - a, c - a))).ravel()


# ------------------------------------------------------------------------------------------------
# pieces
# ------------------------------------------------------------------------------------------------
class Piece:
    dim = 0

    def rule(self):
        """points (n,3) and weights (n,) of a rule exact for polynomials of degree <= DMAX on the piece."""
        raise NotImplementedError

    def contains(self, X: np.ndarray) -> np.ndarray:
        raise NotImplementedError


class Seg(Piece):
    dim = 1

    def __init__(self, a, b):
        self.a, self.b = np.asarray(a, float), np.asarray(b, float)

    def rule(self):
        t, w = _gl01(DMAX // 2 + 1)
        X = self.a[None, :] + t[:, None] * (self.b - self.a)[None, :]
        return X, w * np.linalg.norm(self.b - self.a)

    def contains(self, X):
        d = self.b - self.a
        L2 = float(d @ d)
        t = (X - self.a) @ d / L2
        P = self.a[None, :] + t[:, None] * d[None, :]
        dist = np.linalg.norm(X - P, axis=1)
        tt = TOL_GEOM / np.sqrt(L2)
        return (dist <= TOL_GEOM) & (t >= -tt) & (t <= 1 + tt)

    def tangent(self):
        d = self.b - self.a
        return d / np.linalg.norm(d)


class Flat(Piece):
    """planar polygon in R^3 given by its vertices in order; convex unless plane_only (then membership = in the plane)."""
    dim = 2

    def __init__(self, verts, plane_only=False):
        self.v = np.asarray(verts, float).reshape(-1, 3)
        n = np.zeros(3)
        for i in range(1, len(self.v) - 1):
            n = n + np.cross(self.v[i] - self.v[0], self.v[i + 1] - self.v[0])
        self.n = n / np.linalg.norm(n)
        self.plane_only = plane_only
        off = np.abs((self.v - self.v[0]) @ self.n).max()
        assert off < 1e-12, "harness: Flat piece is not planar"

    def rule(self):
        Xs, Ws = [], []
        for i in range(1, len(self.v) - 1):  # fan of signed triangles (valid for a simple, possibly non convex polygon)
            a, b, c = self.v[0], self.v[i], self.v[i + 1]
            sgn = np.sign(np.cross(b - a, c - a) @ self.n) or 1.0
            X, W = _tri_rule(a, b, c)
            Xs.append(X)
            Ws.append(sgn * W)
        return np.vstack(Xs), np.concatenate(Ws)

    def contains(self, X):
        inplane = np.abs((X - self.v[0]) @ self.n) <= TOL_GEOM
        if self.plane_only:
            return inplane
        ok = inplane.copy()
        m = len(self.v)
        for i in range(m):
            a, b = self.v[i], self.v[(i + 1) % m]
            cr = np.cross(np.broadcast_to(b - a, X.shape), X - a) @ self.n
            ok &= cr >= -TOL_GEOM * max(1.0, np.linalg.norm(b - a))
        return ok


class Hexa(Piece):
    """trilinear cell; verts[(i,j,l)] for i,j,l in {0,1}."""
    dim = 3

    def __init__(self, c: dict):
        self.c = {k: np.asarray(v, float) for k, v in c.items()}
        o = self.c[(0, 0, 0)]
        self.o = o
        self.M = np.stack([self.c[(1, 0, 0)] - o, self.c[(0, 1, 0)] - o, self.c[(0, 0, 1)] - o], axis=1)
        # parallelepiped (affine image of the unit cube)?
        self.is_affine = all(np.allclose(self.c[(i, j, l)], o + self.M @ np.array([i, j, l], float), atol=1e-12)
                             for i, j, l in itertools.product((0, 1), repeat=3))

    def rule(self):
        u, w = _gl01(DMAX // 2 + 3)  # integrand: degree DMAX per variable + Jacobian of degree 2 per variable
        U, V, T = np.meshgrid(u, u, u, indexing="ij")
        X = np.zeros(U.shape + (3,))
        dU = np.zeros_like(X)
        dV = np.zeros_like(X)
        dT = np.zeros_like(X)
        for (i, j, l), p in self.c.items():
            a = U if i else 1 - U
            b = V if j else 1 - V
            c = T if l else 1 - T
            da, db, dc = (1.0 if i else -1.0), (1.0 if j else -1.0), (1.0 if l else -1.0)
            X += (a * b * c)[..., None] * p
            dU += (da * b * c)[..., None] * p
            dV += (a * db * c)[..., None] * p
            dT += (a * b * dc)[..., None] * p
        J = np.abs(np.einsum("...i,...i->...", np.cross(dU, dV), dT))
        W = w[:, None, None] * w[None, :, None] * w[None, None, :]
        return X.reshape(-1, 3), (W * J).ravel()

    def contains(self, X):
        assert self.is_affine, "harness: membership only for parallelepiped cells"
        U = np.linalg.solve(self.M, (X - self.o).T).T
        return np.all((U >= -TOL_GEOM) & (U <= 1 + TOL_GEOM), axis=1)


class Extrusion(Piece):
    """polygon (z=0, may be non convex) x [0, h]; membership: everything (used for 'all' only)."""
    dim = 3

    def __init__(self, pts, h):
        P = np.zeros((len(pts), 3))
        P[:, :2] = np.asarray(pts, float)[:, :2]
        self.base = Flat(P, plane_only=True)
        self.h = float(h)

    def rule(self):
        Xb, Wb = self.base.rule()
        t, w = _gl01(DMAX // 2 + 1)
        X = np.repeat(Xb[None, :, :], len(t), axis=0)
        X[:, :, 2] = (t * self.h)[:, None]
        W = (w * self.h)[:, None] * Wb[None, :]
        return X.reshape(-1, 3), W.ravel()

    def contains(self, X):
        return np.ones(X.shape[0], dtype=bool)


class Poly2D(Piece):
    """planar polygon in z=0 (possibly non-convex), membership: everything (used for 'all' only)."""
    dim = 2

    def __init__(self, pts):
        P = np.zeros((len(pts), 3))
        P[:, :2] = np.asarray(pts, float)[:, :2]
        self.flat = Flat(P, plane_only=True)

    def rule(self):
        return self.flat.rule()

    def contains(self, X):
        return np.ones(X.shape[0], dtype=bool)


# ------------------------------------------------------------------------------------------------
# regions
# ------------------------------------------------------------------------------------------------
class Region:
    """A node selection (mask) and the geometric set the load is expected to be integrated on (pieces).
    `select` may be larger than the union of the pieces (e.g. 'all nodes' with a boundary load)."""

    def __init__(self, name, pieces, select=None, normal=None, everything=False):
        self.name = name
        self.pieces = list(pieces)
        self.select = list(select) if select is not None else list(pieces)
        self.normal = None if normal is None else np.asarray(normal, float)
        self.everything = everything
        self._cache = {}
        self._pts = None

    def mask(self, X):
        if self.everything:
            return np.ones(X.shape[0], dtype=bool)
        m = np.zeros(X.shape[0], dtype=bool)
        for p in self.select:
            m |= p.contains(X)
        return m

    def support_mask(self, X):
        """nodes lying in the closure of the pieces (where nodal loads are allowed to be non zero)."""
        if self.everything and any(isinstance(p, (Hexa, Extrusion, Poly2D)) for p in self.pieces):
            return np.ones(X.shape[0], dtype=bool)  # the pieces are the whole meshed domain
        m = np.zeros(X.shape[0], dtype=bool)
        for p in self.pieces:
            m |= p.contains(X)
        return m

    def _rule(self):
        if self._pts is None:
            if self.pieces:
                rs = [p.rule() for p in self.pieces]
                self._pts = (np.vstack([r[0] for r in rs]), np.concatenate([r[1] for r in rs]))
            else:
                self._pts = (np.zeros((0, 3)), np.zeros(0))
        return self._pts

    def mono(self, e) -> float:
        """exact integral of x^e0 y^e1 z^e2 over the pieces (total degree <= DMAX)."""
        e = tuple(int(k) for k in e)
        assert sum(e) <= DMAX, "harness: monomial beyond the degree of the reference rule"
        if e not in self._cache:
            X, W = self._rule()
            self._cache[e] = float((W * X[:, 0] ** e[0] * X[:, 1] ** e[1] * X[:, 2] ** e[2]).sum())
        return self._cache[e]

    def abs_mono(self, e) -> float:
        """integral of |x^e0 y^e1 z^e2| over the pieces up to quadrature error: the natural scale of a resultant."""
        e = tuple(int(k) for k in e)
        X, W = self._rule()
        return float((np.abs(W) * np.abs(X[:, 0] ** e[0] * X[:, 1] ** e[1] * X[:, 2] ** e[2])).sum())

    def measure(self):
        return self.mono((0, 0, 0))


def _seg_normal_2d(a, b):
    t = (np.asarray(b, float) - np.asarray(a, float))
    t = t / np.linalg.norm(t)
    return np.array([t[1], -t[0], 0.0])


def regions_T1(xs, A=None, b=None):
    """1D template along x with vertices xs (optionally its affine image x -> A x + b: a straight member anywhere): bulk = segments."""
    P = [np.array([x, 0.0, 0.0]) for x in xs]
    if A is not None:
        P = [np.asarray(A, float) @ p + (0.0 if b is None else np.asarray(b, float)) for p in P]
    segs = [Seg(P[i], P[i + 1]) for i in range(len(P) - 1)]
    out = {1: {"all": Region("all", segs, everything=True)}}
    if len(segs) >= 2:
        out[1]["subpart"] = Region("subpart", segs[:1])
    if len(segs) >= 3:
        out[1]["two_faces"] = Region("two_faces", segs[:2])
    return out


def regions_T2(P):
    """P (kx+1, ky+1, 3) vertex grid of template_2d -> {ldim: {selection name: Region}}."""
    kx, ky = P.shape[0] - 1, P.shape[1] - 1
    side = {
        "x0": [Seg(P[0, j], P[0, j + 1]) for j in range(ky)],
        "x1": [Seg(P[kx, j], P[kx, j + 1]) for j in range(ky)],
        "y0": [Seg(P[i, 0], P[i + 1, 0]) for i in range(kx)],
        "y1": [Seg(P[i, ky], P[i + 1, ky]) for i in range(kx)],
    }

    def nrm(s):
        return _seg_normal_2d(s[0].a, s[-1].b) if all(
            np.allclose(np.cross(q.tangent(), s[0].tangent()), 0, atol=1e-12) for q in s) else None

    r1 = {
        "face": Region("face", side["x0"], normal=nrm(side["x0"])),
        "face_b": Region("face_b", side["x1"], normal=nrm(side["x1"])),
        "two_faces": Region("two_faces", side["x1"] + side["y1"]),
        "all": Region("all", side["x0"] + side["x1"] + side["y0"] + side["y1"], everything=True),
    }
    if ky >= 2:
        r1["subpart"] = Region("subpart", side["x0"][:1], normal=nrm(side["x0"][:1]))
    cells = {(i, j): Flat([P[i, j], P[i + 1, j], P[i + 1, j + 1], P[i, j + 1]]) for i in range(kx) for j in range(ky)}
    r2 = {
        "all": Region("all", cells.values(), everything=True),
        "face": Region("face", [], select=side["x0"]),
    }
    if kx >= 2 and ky >= 2:
        r2["subpart"] = Region("subpart", [cells[(0, 0)]])
        r2["two_faces"] = Region("two_faces", [cells[(0, 0)], cells[(1, 0)]])
    return {1: r1, 2: r2}


def regions_T3(P, distort=False):
    """P (kx+1, ky+1, kz+1, 3) vertex grid of template_3d."""
    kx, ky, kz = (s - 1 for s in P.shape[:3])

    def fx(i):
        return [Flat([P[i, j, l], P[i, j + 1, l], P[i, j + 1, l + 1], P[i, j, l + 1]]) for j in range(ky) for l in range(kz)]

    def fy(j):
        return [Flat([P[i, j, l], P[i + 1, j, l], P[i + 1, j, l + 1], P[i, j, l + 1]]) for i in range(kx) for l in range(kz)]

    def fz(l):
        return [Flat([P[i, j, l], P[i + 1, j, l], P[i + 1, j + 1, l], P[i, j + 1, l]]) for i in range(kx) for j in range(ky)]

    cells = {}
    for i, j, l in itertools.product(range(kx), range(ky), range(kz)):
        cells[(i, j, l)] = Hexa({(a, b, c): P[i + a, j + b, l + c] for a, b, c in itertools.product((0, 1), repeat=3)})
    r3 = {"all": Region("all", cells.values(), everything=True)}
    out = {3: r3}
    if distort:
        return out  # faces touching the displaced vertex are not planar: only the volume of the whole mesh is used
    x0, z0 = fx(0), fz(0)
    r2 = {
        "face": Region("face", x0, normal=x0[0].n),
        "face_b": Region("face_b", z0, normal=z0[0].n),
        "two_faces": Region("two_faces", x0 + z0),
        "all": Region("all", fx(0) + fx(kx) + fy(0) + fy(ky) + fz(0) + fz(kz), everything=True),
    }
    if ky >= 2 and kz >= 2:
        r2["subpart"] = Region("subpart", x0[:1], normal=x0[0].n)
    if kx >= 2 and ky >= 2:
        r2["subpart_b"] = Region("subpart_b", z0[:1], normal=z0[0].n)
    out[2] = r2
    r3["face"] = Region("face", [], select=x0)
    if kx >= 2 and ky >= 2 and kz >= 2:
        r3["subpart"] = Region("subpart", [cells[(0, 0, 0)]])
        r3["two_faces"] = Region("two_faces", [cells[(0, 0, 0)], cells[(1, 0, 0)]])
    return out


def _pts3(pts, z=0.0):
    P = np.zeros((len(pts), 3))
    P[:, :2] = np.asarray(pts, float)[:, :2]
    P[:, 2] = z
    return P


def _cut_on_segment(a, b, coords, connects):
    """parameter t_cut in (0,1) such that [a, a+t_cut(b-a)] is tiled by the first half of the mesh elements lying on [a,b]
    (mesh data only: coordinates and connectivity of the 1D groups)."""
    s = Seg(a, b)
    on = s.contains(coords)
    d = s.b - s.a
    t = (coords - s.a) @ d / float(d @ d)
    el = []
    for con in connects:
        for row in con:
            if on[row].all():
                el.append((float(t[row].mean()), float(t[row].max())))
    el.sort()
    if len(el) < 2:
        return None
    m = max(1, len(el) // 2)
    return el[m - 1][1]


def regions_G2(pts, coords, seg_connects):
    P = _pts3(pts)
    n = len(P)
    sides = [[Seg(P[i], P[(i + 1) % n])] for i in range(n)]
    r1 = {
        "face": Region("face", sides[0], normal=_seg_normal_2d(P[0], P[1])),
        "face_b": Region("face_b", sides[1], normal=_seg_normal_2d(P[1], P[2])),
        "two_faces": Region("two_faces", sides[0] + sides[1]),
        "all": Region("all", [s for ss in sides for s in ss], everything=True),
    }
    tc = _cut_on_segment(P[0], P[1], coords, seg_connects)
    if tc is not None:
        sub = [Seg(P[0], P[0] + tc * (P[1] - P[0]))]
        r1["subpart"] = Region("subpart", sub, normal=_seg_normal_2d(P[0], P[1]))
    r2 = {"all": Region("all", [Poly2D(pts)], everything=True), "face": Region("face", [], select=sides[0])}
    return {1: r1, 2: r2}


def regions_G3(pts, h, coords, seg_connects, layers=2):
    B, T = _pts3(pts, 0.0), _pts3(pts, h)
    n = len(B)
    lat = [Flat([B[i], B[(i + 1) % n], T[(i + 1) % n], T[i]]) for i in range(n)]
    bot, top = Flat(B, plane_only=True), Flat(T, plane_only=True)
    r2 = {
        "face": Region("face", [lat[0]], normal=lat[0].n),
        "face_b": Region("face_b", [bot], normal=bot.n),
        "two_faces": Region("two_faces", [lat[0], bot]),
        "all": Region("all", lat + [bot, top], everything=True),
    }
    if layers == 2:
        Mz = _pts3(pts, h / 2)
        sub = Flat([B[0], B[1], Mz[1], Mz[0]])
        r2["subpart"] = Region("subpart", [sub], normal=lat[0].n)
    eb = [Seg(B[i], B[(i + 1) % n]) for i in range(n)]
    et = [Seg(T[i], T[(i + 1) % n]) for i in range(n)]
    ev = [Seg(B[i], T[i]) for i in range(n)]
    r1 = {
        "face": Region("face", [eb[0]]),
        "face_b": Region("face_b", [ev[1]]),
        "two_faces": Region("two_faces", [eb[0], ev[1]]),
        "all": Region("all", eb + et + ev, everything=True),
    }
    tc = _cut_on_segment(B[0], B[1], coords, seg_connects)
    if tc is not None:
        r1["subpart"] = Region("subpart", [Seg(B[0], B[0] + tc * (B[1] - B[0]))])
    r3 = {"all": Region("all", [Extrusion(pts, h)], everything=True), "face": Region("face", [], select=[lat[0]])}
    return {1: r1, 2: r2, 3: r3}


def regions_line(p0, p1, coords, seg_connects):
    """a straight member p0 -> p1 meshed with 1D elements."""
    p0, p1 = np.asarray(p0, float), np.asarray(p1, float)
    r = {"all": Region("all", [Seg(p0, p1)], everything=True)}
    tc = _cut_on_segment(p0, p1, coords, seg_connects)
    if tc is not None:
        r["subpart"] = Region("subpart", [Seg(p0, p0 + tc * (p1 - p0))])
    return {1: r}


# ------------------------------------------------------------------------------------------------
# mesh-data helpers (plain arrays: coordinates + connectivity), independent of the load code
# ------------------------------------------------------------------------------------------------
def elements_inside(mask, connect):
    """indices of the elements whose nodes are ALL selected (documented meaning of a node selection for a load)."""
    return np.where(mask[connect].all(axis=1))[0]


def affine_residual(X, xi):
    """max residual of the best affine fit X ~ [xi, 1] A (0 for an affine image of the reference element)."""
    A = np.hstack([xi, np.ones((xi.shape[0], 1))])
    sol, *_ = np.linalg.lstsq(A, X, rcond=None)
    return float(np.abs(A @ sol - X).max())


def choose_strays(mask, coords, connects, how_many=2):
    """nodes outside the selection whose addition completes no element of the loaded dimension (mesh data only);
    deterministic: farthest from the centroid of the selection first."""
    sel = np.where(mask)[0]
    if sel.size == 0:
        return np.array([], dtype=int)
    cen = coords[sel].mean(0)
    cand = [int(n) for n in np.argsort(-np.linalg.norm(coords - cen, axis=1), kind="stable") if not mask[n]]
    cur = mask.copy()
    out = []
    base = [set(elements_inside(cur, con).tolist()) for con in connects]
    for n in cand:
        cur[n] = True
        ok = all(set(elements_inside(cur, con).tolist()) == b for con, b in zip(connects, base))
        if ok:
            out.append(n)
            if len(out) >= how_many:
                break
        else:
            cur[n] = False
    return np.array(out, dtype=int)
