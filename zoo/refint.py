"""Independent reference integrals.

* exact (Fraction) integrals of monomials over the reference elements used by EasyFEA;
* integrals of polynomials over segments / polygons / affine boxes by our own tensor Gauss-Legendre rule
  after a Duffy collapse (exact for polynomials up to round-off, independent of EasyFEA's tables)."""
from __future__ import annotations

import math
from fractions import Fraction

import numpy as np


def ref_monomial(shape: str, e) -> Fraction:
    """integral of x^e0 y^e1 z^e2 over the reference element of `shape`
    SEG [-1,1]; TRI (0,0),(1,0),(0,1); QUAD [-1,1]^2; TETRA unit; HEXA [-1,1]^3; PRISM TRI(x,y) x [-1,1](z)."""
    f = math.factorial

    def seg(k):
        return Fraction(0) if k % 2 else Fraction(2, k + 1)

    if shape == "SEG":
        return seg(e[0])
    if shape == "TRI":
        return Fraction(f(e[0]) * f(e[1]), f(e[0] + e[1] + 2))
    if shape == "QUAD":
        return seg(e[0]) * seg(e[1])
    if shape == "TETRA":
        return Fraction(f(e[0]) * f(e[1]) * f(e[2]), f(e[0] + e[1] + e[2] + 3))
    if shape == "HEXA":
        return seg(e[0]) * seg(e[1]) * seg(e[2])
    if shape == "PRISM":
        return Fraction(f(e[0]) * f(e[1]), f(e[0] + e[1] + 2)) * seg(e[2])
    raise KeyError(shape)


REF_MEASURE = {"SEG": 2.0, "TRI": 0.5, "QUAD": 4.0, "TETRA": 1 / 6, "HEXA": 8.0, "PRISM": 1.0}


def in_reference(shape: str, pts: np.ndarray, tol=1e-14) -> np.ndarray:
    p = np.atleast_2d(pts)
    if shape in ("SEG", "QUAD", "HEXA"):
        return np.all(np.abs(p) <= 1 + tol, axis=1)
    if shape == "TRI":
        return (p[:, 0] >= -tol) & (p[:, 1] >= -tol) & (1 - p[:, 0] - p[:, 1] >= -tol)
    if shape == "TETRA":
        return (p >= -tol).all(axis=1) & (1 - p.sum(axis=1) >= -tol)
    if shape == "PRISM":
        return (p[:, 0] >= -tol) & (p[:, 1] >= -tol) & (1 - p[:, 0] - p[:, 1] >= -tol) & (np.abs(p[:, 2]) <= 1 + tol)
    raise KeyError(shape)


def _gl01(n):
    x, w = np.polynomial.legendre.leggauss(n)
    return (x + 1) / 2, w / 2


def int_triangle(f, a, b, c, deg: int) -> float:
    """integral of polynomial f(x,y,z) (vectorised) of total degree <= deg over the flat triangle (a,b,c) in R^3."""
    n = deg // 2 + 2
    u, wu = _gl01(n)
    v, wv = _gl01(n)
    U, V = np.meshgrid(u, v, indexing="ij")
    W = np.outer(wu, wv) * (1 - U)
    # Duffy: r = u, s = v (1-u)
    R, S = U, V * (1 - U)
    a, b, c = (np.asarray(p, dtype=float) for p in (a, b, c))
    X = a[None, None, :] + R[..., None] * (b - a) + S[..., None] * (c - a)
    area2 = np.linalg.norm(np.cross(b - a, c - a))
    return float((W * f(X[..., 0], X[..., 1], X[..., 2])).sum() * area2)


def int_polygon(f, pts, deg: int) -> float:
    """planar polygon given by its vertices (counter-clockwise, z=0 allowed to be omitted), fan of signed triangles."""
    P = np.zeros((len(pts), 3))
    P[:, : np.asarray(pts).shape[1]] = np.asarray(pts, dtype=float)
    tot = 0.0
    for i in range(1, len(P) - 1):
        a, b, c = P[0], P[i], P[i + 1]
        sign = np.sign(np.cross(b - a, c - a)[2]) or 1.0
        tot += sign * int_triangle(f, a, b, c, deg)
    return tot


def int_tetra(f, a, b, c, d, deg: int) -> float:
    n = deg // 2 + 2
    u, wu = _gl01(n)
    U, V, T = np.meshgrid(u, u, u, indexing="ij")
    W = wu[:, None, None] * wu[None, :, None] * wu[None, None, :] * (1 - U) ** 2 * (1 - V)
    R = U
    S = V * (1 - U)
    Q = T * (1 - U) * (1 - V)
    a, b, c, d = (np.asarray(p, dtype=float) for p in (a, b, c, d))
    X = a + R[..., None] * (b - a) + S[..., None] * (c - a) + Q[..., None] * (d - a)
    vol6 = abs(np.linalg.det(np.array([b - a, c - a, d - a])))
    return float((W * f(X[..., 0], X[..., 1], X[..., 2])).sum() * vol6)


def int_affine_box(f, A, b, dim: int, deg: int, size=(1.0, 1.0, 1.0)) -> float:
    """integral of polynomial f over the image of [0,sx]x[0,sy](x[0,sz]) under x -> A x + b."""
    n = deg // 2 + 2
    u, wu = _gl01(n)
    A = np.asarray(A, dtype=float)
    b = np.asarray(b, dtype=float)
    if dim == 1:
        X = np.zeros((n, 3))
        X[:, 0] = u * size[0]
        Y = X @ A.T + b
        return float((wu * f(Y[:, 0], Y[:, 1], Y[:, 2])).sum() * size[0] * np.linalg.norm(A[:, 0]))
    if dim == 2:
        U, V = np.meshgrid(u, u, indexing="ij")
        X = np.zeros(U.shape + (3,))
        X[..., 0], X[..., 1] = U * size[0], V * size[1]
        Y = X @ A.T + b
        W = np.outer(wu, wu)
        jac = np.linalg.norm(np.cross(A[:, 0], A[:, 1])) * size[0] * size[1]
        return float((W * f(Y[..., 0], Y[..., 1], Y[..., 2])).sum() * jac)
    U, V, T = np.meshgrid(u, u, u, indexing="ij")
    X = np.stack([U * size[0], V * size[1], T * size[2]], axis=-1)
    Y = X @ A.T + b
    W = wu[:, None, None] * wu[None, :, None] * wu[None, None, :]
    jac = abs(np.linalg.det(A)) * size[0] * size[1] * size[2]
    return float((W * f(Y[..., 0], Y[..., 1], Y[..., 2])).sum() * jac)
